#!/usr/bin/env bash
# Independent confirmation of one seeded breakage in its scratch worktree (never in /repo):
# with the patch the existing suite passes and the demonstration fails; without it the
# demonstration passes. Usage: tools/confirm_one.sh <id> <worktree> <dir with patch.diff + demo>
set -u
id="$1"; wt="$2"; src="$3"
export CARGO_NET_OFFLINE=true
cd "$wt" || exit 2
git checkout -q -- . ; git clean -fdq -e target
git apply "$src/patch.diff" || { echo "$id apply-failed"; exit 1; }
suite="fail"; cargo test --workspace --offline >"/tmp/confirm-$id-suite.log" 2>&1 && suite="pass"
demo=$(ls "$src"/demo_test.rs "$src"/demo.sh 2>/dev/null | head -1)
if [[ "$demo" == *.rs ]]; then
  name=$(basename "$demo" .rs)
  dest=numbat/tests; grep -q "numbat-cli\|assert_cmd" "$demo" && dest=numbat-cli/tests
  pkg=numbat; [ "$dest" = numbat-cli/tests ] && pkg=numbat-cli
  cp "$demo" "$dest/"
  with="pass"; cargo test -p $pkg --test "$name" --offline >"/tmp/confirm-$id-with.log" 2>&1 || with="fail"
  git apply -R "$src/patch.diff"
  without="fail"; cargo test -p $pkg --test "$name" --offline >"/tmp/confirm-$id-without.log" 2>&1 && without="pass"
  rm -f "$dest/$name.rs"
else
  cargo build -p numbat-cli --offline >/dev/null 2>&1
  with="pass"; NUMBAT_MODULES_PATH="$wt/numbat/modules" bash "$demo" "$wt/target/debug/numbat" >"/tmp/confirm-$id-with.log" 2>&1 || with="fail"
  git apply -R "$src/patch.diff"
  cargo build -p numbat-cli --offline >/dev/null 2>&1
  without="fail"; NUMBAT_MODULES_PATH="$wt/numbat/modules" bash "$demo" "$wt/target/debug/numbat" >"/tmp/confirm-$id-without.log" 2>&1 && without="pass"
fi
git checkout -q -- . ; git clean -fdq -e target
echo "$id existing-suite-with-patch=$suite demo-with-patch=$with demo-without-patch=$without"
