#!/usr/bin/env bash
# Determinism proof: every property, the same VERIF_SEED values, two separate processes (different
# hash-map keys) with different worker counts; the per-run fingerprints must be identical.
# Usage: tools/selftest_determinism.sh [seed ...]
set -u
ROOT="$(cd "$(dirname "${BASH_SOURCE[0]}")/.." && pwd)"
cd "$ROOT"
./check build >/dev/null || exit 2
seeds=("$@"); [ ${#seeds[@]} -eq 0 ] && seeds=(1 2 3)
runs() { case "$1" in C06) echo 800;; C07) echo 1500;; C17) echo 400;; C18) echo 300000;; C22) echo 200;; esac; }
fail=0
for seed in "${seeds[@]}"; do
  for p in C06 C07 C17 C18 C22; do
    n=$(runs $p)
    VERIF_SEED=$seed ./target/sim/debug/nbsim run $p --runs $n --workers 16 --fingerprints /tmp/fp-$p-a.txt --evidence /tmp/fp-ev-a.json --selfcheck-every 0 >/tmp/fp-$p-a.log 2>&1
    VERIF_SEED=$seed ./target/sim/debug/nbsim run $p --runs $n --workers 3  --fingerprints /tmp/fp-$p-b.txt --evidence /tmp/fp-ev-b.json --selfcheck-every 0 >/tmp/fp-$p-b.log 2>&1
    if cmp -s /tmp/fp-$p-a.txt /tmp/fp-$p-b.txt; then
      echo "seed=$seed $p: $(wc -l < /tmp/fp-$p-a.txt) runs, fingerprints identical across processes (16 vs 3 workers)"
    else
      echo "seed=$seed $p: FINGERPRINTS DIFFER: $(diff /tmp/fp-$p-a.txt /tmp/fp-$p-b.txt | head -5)"; fail=1
    fi
  done
done
exit $fail
