#!/usr/bin/env bash
# Runs the matching check against each seeded breakage in /verif/seeded (applied to /repo and
# reverted straight afterwards). Usage: tools/run_seeded.sh [tier] [id ...]
set -u
ROOT="$(cd "$(dirname "${BASH_SOURCE[0]}")/.." && pwd)"
cd "$ROOT"
TIER="${1:-quick}"; shift || true
if [ -n "$(git -C /repo status --porcelain)" ]; then echo "refusing: /repo is not clean"; exit 2; fi
ids=("$@"); [ ${#ids[@]} -eq 0 ] && ids=($(ls seeded))
for id in "${ids[@]}"; do
  prop="C${id:1:2}"
  git -C /repo apply "$ROOT/seeded/$id/patch.diff" || { echo "$id apply-failed"; git -C /repo checkout -- .; continue; }
  log="/tmp/seeded-$id.log"
  ./check "$prop" --tier "$TIER" --evidence "/tmp/seeded-ev-$id.json" > "$log" 2>&1
  code=$?
  first=$(grep -m1 "oracle=" "$log" | cut -c1-260)
  verdict="missed"; [ $code -eq 1 ] && verdict="caught"; [ $code -eq 2 ] && verdict="harness-error"
  printf "%s\t%s\t%s\texit=%s\t%s\n" "$id" "$prop" "$verdict" "$code" "$first"
  git -C /repo checkout -- .
  git -C /repo clean -fdq
  rm -rf "$ROOT/replays"
done
