#!/usr/bin/env python3
"""Systematic mutation sweep: how many small, compiling changes to the code a property is
anchored in does the matching check notice?

Nothing here touches /repo or the registered checks: the sweep works on a scratch worktree of
/repo's HEAD and a scratch copy of /verif/sim whose path dependency points at that worktree
(the `check` script and nbsim honour NBSIM_REPO / NBSIM_SIM_DIR for exactly this purpose).

  tools/mutation_sweep.py --scratch /tmp/sweep-c18 --prop C18 --file numbat/src/list.rs \
        [--lines 36-160] [--args "--runs 300000"] [--max 200] [--classify] [--out tools/sweeps/c18-list.tsv]

Per mutant: caught (check exits 1), survived (exit 0), invalid (does not compile), timeout,
harness (exit 2 for another reason). With --classify every survivor is also run against the
existing test suite in the scratch worktree (killed-by-tests / survives-tests).
The scratch directory is removed at the end unless --keep is given.
"""
import argparse, json, os, re, shutil, subprocess, sys, time

ROOT = os.path.dirname(os.path.dirname(os.path.abspath(__file__)))

OPS = [
    (r'==', '!='), (r'!=', '=='), (r'<=', '<'), (r'>=', '>'),
    (r'(?<![<>=!\-])<(?![<=])(?=\s)', '<='), (r'(?<![<>=\-])>(?![>=])(?=\s)', '>='),
    (r'&&', '||'), (r'\|\|', '&&'),
    (r'\+ 1\b', '- 1'), (r'- 1\b', '+ 1'), (r'\+= 1\b', '+= 0'), (r'-= 1\b', '-= 0'),
    (r'\+ 1\b', '+ 0'), (r'- 1\b', '- 0'),
    (r'\btrue\b', 'false'), (r'\bfalse\b', 'true'),
    (r'\.is_err\(\)', '.is_ok()'), (r'\.is_ok\(\)', '.is_err()'),
    (r'\.is_some\(\)', '.is_none()'), (r'\.is_none\(\)', '.is_some()'),
    (r'if !', 'if '), (r'\.is_empty\(\)', '.is_empty() == false'),
    (r'\bmin\(', 'max('), (r'\bmax\(', 'min('),
    (r'push_front', 'push_back'), (r'push_back', 'push_front'),
    (r'pop_front', 'pop_back'), (r'pop_back', 'pop_front'),
    (r'\.and\(', '.or('), (r'\.or\(', '.and('),
    (r'Break\(', 'Continue('), (r'Continue\(', 'Break('),
]


def sh(cmd, cwd=None, env=None, timeout=None):
    try:
        p = subprocess.run(cmd, shell=True, cwd=cwd, env=env, stdout=subprocess.PIPE,
                           stderr=subprocess.STDOUT, timeout=timeout, text=True, errors='replace')
        return p.returncode, p.stdout
    except subprocess.TimeoutExpired as e:
        out = e.stdout if isinstance(e.stdout, str) else (e.stdout or b'').decode(errors='replace')
        return 124, out


def gen_mutants(path, text, lo, hi):
    lines = text.split('\n')
    muts = []
    in_test = False
    for i, line in enumerate(lines):
        n = i + 1
        if '#[cfg(test)]' in line:
            in_test = True
        if in_test or n < lo or n > hi:
            continue
        s = line.strip()
        if not s or s.startswith('//') or s.startswith('#['):
            continue
        # statement deletion (single-line statements that are not declarations)
        if s.endswith(';') and not s.startswith(('let ', 'use ', 'pub ', 'const ', 'static ', 'type ', 'return', 'break', 'continue')) \
                and s.count('(') == s.count(')') and s.count('{') == s.count('}'):
            muts.append((n, 'delete-statement', line, re.sub(r'\S.*$', '// (deleted by mutation)', line)))
        code = line.split('//')[0]
        for pat, rep in OPS:
            for m in re.finditer(pat, code):
                new = line[:m.start()] + rep + line[m.end():]
                if new != line:
                    muts.append((n, f'{pat} -> {rep}', line, new))
    # de-duplicate
    seen = set(); out = []
    for m in muts:
        k = (m[0], m[3])
        if k not in seen:
            seen.add(k); out.append(m)
    return out


def main():
    ap = argparse.ArgumentParser()
    ap.add_argument('--scratch', required=True)
    ap.add_argument('--prop', required=True)
    ap.add_argument('--file', required=True, action='append')
    ap.add_argument('--lines', action='append', default=[])
    ap.add_argument('--args', default='')
    ap.add_argument('--max', type=int, default=10000)
    ap.add_argument('--stride', type=int, default=1, help='take every k-th mutant')
    ap.add_argument('--timeout', type=int, default=900)
    ap.add_argument('--classify', action='store_true')
    ap.add_argument('--keep', action='store_true')
    ap.add_argument('--out', default=None)
    a = ap.parse_args()

    scratch = os.path.abspath(a.scratch)
    repo = os.path.join(scratch, 'repo')
    verif = os.path.join(scratch, 'verif')
    if os.path.exists(scratch):
        sh(f'git -C /repo worktree remove --force {repo}')
        shutil.rmtree(scratch, ignore_errors=True)
    os.makedirs(verif)
    rc, out = sh(f'git -C /repo worktree add --detach {repo} HEAD')
    if rc != 0:
        print(out); sys.exit(2)
    shutil.copy(os.path.join(ROOT, 'check'), verif)
    shutil.copy(os.path.join(ROOT, 'KNOWN_FINDINGS.txt'), verif)
    shutil.copytree(os.path.join(ROOT, 'sim'), os.path.join(verif, 'sim'),
                    ignore=shutil.ignore_patterns('target'))
    ct = os.path.join(verif, 'sim', 'Cargo.toml')
    t = open(ct).read().replace('/repo/numbat', repo + '/numbat')
    open(ct, 'w').write(t)
    env = dict(os.environ, NBSIM_REPO=repo, CARGO_NET_OFFLINE='true')
    env.pop('VERIF_ROOT', None)
    out_path = a.out or os.path.join(ROOT, 'tools', 'sweeps', f'{a.prop}-{os.path.basename(a.file[0])}.tsv')
    os.makedirs(os.path.dirname(out_path), exist_ok=True)

    def run_check():
        t0 = time.time()
        rc, out = sh(f'./check {a.prop} --tier quick {a.args} --evidence {scratch}/ev.json', cwd=verif, env=env, timeout=a.timeout)
        return rc, out, time.time() - t0

    print('baseline (unmutated scratch copy) ...', flush=True)
    rc, out, dt = run_check()
    print(f'baseline exit={rc} {dt:.0f}s', flush=True)
    if rc != 0:
        print(out[-3000:]); sys.exit(2)

    results = []
    with open(out_path, 'w') as tsv:
        tsv.write('file\tline\toperator\tverdict\tseconds\toracle\toriginal\tmutated\n')
        for fi, rel in enumerate(a.file):
            path = os.path.join(repo, rel)
            text = open(path).read()
            lo, hi = 1, 10 ** 9
            if fi < len(a.lines) and a.lines[fi]:
                lo, hi = [int(x) for x in a.lines[fi].split('-')]
            muts = gen_mutants(path, text, lo, hi)[::a.stride][:a.max]
            print(f'{rel}: {len(muts)} mutants', flush=True)
            for (n, op, old, new) in muts:
                lines = text.split('\n')
                lines[n - 1] = new
                open(path, 'w').write('\n'.join(lines))
                rc, out, dt = run_check()
                oracle = ''
                if rc == 1:
                    verdict = 'caught'
                    m = re.search(r'oracle=(\S+)', out)
                    oracle = m.group(1) if m else ''
                elif rc == 0:
                    verdict = 'survived'
                elif rc == 124:
                    verdict = 'timeout'
                elif 'building nbsim failed' in out or 'building the numbat CLI failed' in out:
                    verdict = 'invalid'
                else:
                    verdict = 'harness'
                    oracle = (re.search(r'HARNESS-ERROR[^\n]*', out) or re.search(r'NON-REPRODUCING[^\n]*', out) or [''])[0][:160] if out else ''
                    if not isinstance(oracle, str):
                        oracle = oracle.group(0)[:160]
                if verdict == 'survived' and a.classify:
                    rc2, out2 = sh('cargo test --workspace --offline 2>&1 | tail -40', cwd=repo, env=env, timeout=1800)
                    failed = ('test result: FAILED' in out2) or ('error: test failed' in out2) or ('error[' in out2) or rc2 != 0
                    verdict = 'survived-but-killed-by-tests' if failed else 'survived-both'
                open(path, 'w').write(text)
                shutil.rmtree(os.path.join(verif, 'replays'), ignore_errors=True)
                row = (rel, n, op, verdict, f'{dt:.0f}', oracle, old.strip(), new.strip())
                tsv.write('\t'.join(str(x) for x in row) + '\n'); tsv.flush()
                results.append(row)
                print(f'{rel}:{n} [{op}] {verdict} {oracle} ({dt:.0f}s) :: {new.strip()[:100]}', flush=True)
    counts = {}
    for r in results:
        counts[r[3]] = counts.get(r[3], 0) + 1
    print('SUMMARY', json.dumps(counts), flush=True)
    open(out_path + '.summary.json', 'w').write(json.dumps({'prop': a.prop, 'files': a.file, 'lines': a.lines, 'args': a.args, 'counts': counts}, indent=1))
    if not a.keep:
        sh(f'git -C /repo worktree remove --force {repo}')
        shutil.rmtree(scratch, ignore_errors=True)


if __name__ == '__main__':
    main()
