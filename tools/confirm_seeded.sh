#!/usr/bin/env bash
# Independent confirmation of the seeded breakages in a scratch worktree (never in /repo):
# with the patch the existing suite still passes and the demonstration fails; without the
# patch the demonstration passes. Usage: tools/confirm_seeded.sh <worktree-dir-prefix> [id ...]
set -u
ROOT="$(cd "$(dirname "${BASH_SOURCE[0]}")/.." && pwd)"
export CARGO_NET_OFFLINE=true
ids=("$@"); [ ${#ids[@]} -eq 0 ] && ids=($(ls "$ROOT/seeded"))
for id in "${ids[@]}"; do
  p="${id:1:2}"; wt="/tmp/wt-c$p"
  [ -d "$wt" ] || { echo "$id no-worktree"; continue; }
  cd "$wt"; git checkout -q -- . ; git clean -fdq -e target
  git apply "$ROOT/seeded/$id/patch.diff" || { echo "$id apply-failed"; continue; }
  suite="fail"; cargo test --workspace --offline >"/tmp/confirm-$id-suite.log" 2>&1 && suite="pass"
  demo=$(ls "$ROOT/seeded/$id"/demo* | head -1)
  if [[ "$demo" == *.rs ]]; then
    name=$(basename "$demo" .rs)
    cp "$demo" numbat/tests/
    with="pass"; cargo test -p numbat --test "$name" --offline >"/tmp/confirm-$id-with.log" 2>&1 || with="fail"
    git apply -R "$ROOT/seeded/$id/patch.diff"
    without="fail"; cargo test -p numbat --test "$name" --offline >"/tmp/confirm-$id-without.log" 2>&1 && without="pass"
    rm -f "numbat/tests/$name.rs"
  else
    cargo build -p numbat-cli --offline >/dev/null 2>&1
    with="pass"; NUMBAT_MODULES_PATH="$wt/numbat/modules" bash "$demo" "$wt/target/debug/numbat" >"/tmp/confirm-$id-with.log" 2>&1 || with="fail"
    git apply -R "$ROOT/seeded/$id/patch.diff"
    cargo build -p numbat-cli --offline >/dev/null 2>&1
    without="fail"; NUMBAT_MODULES_PATH="$wt/numbat/modules" bash "$demo" "$wt/target/debug/numbat" >"/tmp/confirm-$id-without.log" 2>&1 && without="pass"
  fi
  git checkout -q -- . ; git clean -fdq -e target
  echo "$id existing-suite-with-patch=$suite demo-with-patch=$with demo-without-patch=$without"
done
