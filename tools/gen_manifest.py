#!/usr/bin/env python3
"""Regenerates /verif/MANIFEST.json from the tables below (single source of truth)."""
import json, subprocess, os

ROOT = os.path.dirname(os.path.dirname(os.path.abspath(__file__)))

CLAIMED = {
    "C06": dict(
        text="Seeded search over session histories with injected failures at every pipeline stage (parse, unknown/unavailable/broken module, name clash, type error, run-time error, fault at an arbitrary VM instruction). After every input the faulted session is compared with a twin that never saw the failing inputs and with a snapshot taken before the input (names, values, types, signatures, unit definitions, re-imports, fresh definitions, results of all later inputs). Evidence of absence on the histories explored, not a proof. Sub-batches: both sessions built from scratch; the CLI's currency-on-demand loading switched on (its one by-design exception modelled narrowly); replay of the history in a fresh process whose failing inputs are evaluated by fork()ed copies (process-wide state).",
        note="Trusted: the simulator (generator, SimImporter, probe battery), Context::clone being faithful (checked separately by C07's fork mode), numbat's Display of values/errors as the observation channel. Currency on-demand loading is exercised in a sub-batch with its one by-design exception modelled narrowly; process-wide state is covered by a fresh-process reference (fork) in a sub-batch.",
        technique="deterministic simulation: seeded histories + fault injection (VM-instruction fault hook, faulty module importer), twin-session refinement oracle, from-scratch and fresh-process (fork) references",
        ref="§5 C06"),
    "C07": dict(
        text="Seeded search over successful histories executed in five modes (one input per line, all joined, chunked at seeded points, scripted REPL with failing traffic and read-only commands followed by save and replay of the saved file, fork of the session with independent continuations) with per-element and final observational comparison; save is additionally run against fault-injecting writers and real unwritable destinations with a byte-exact model. Thorough tier cross-checks the REPL glue against the real binary. Fork runs take the pair under test and its two references from three independently built base contexts; each side re-defines the sibling's names, defines identifiers derived from the sibling's units and echoes the sibling's last line. A crash of the real interactive binary is a violation. One line-by-line replay in three runs on a short-lived thread of its own, so that per-thread state of the interpreter cannot reach the reference mode.",
        note="Trusted: the simulator, the ~20-line copy of the REPL loop glue (cross-validated against the real binary in the thorough tier), Display output as observation channel.",
        technique="deterministic simulation: seeded histories under seeded split/clone/save schedules with I/O fault injection on the save writer; cross-mode refinement + byte-exact save model",
        ref="§5 C07"),
    "C17": dict(
        text="Imports as commutative idempotent deliveries: seeded subsets of the real standard-library modules delivered in seeded orders with duplication and batching (separate inputs, one input, nested through synthetic modules); every delivery must succeed, duplicates must cause zero importer calls and no state change, the final observable digest (names, types, values, unit and dimension definitions) must equal that of the canonical delivery. Thorough tier enumerates all ordered pairs exhaustively. A by-construction import-effect oracle (definitions found in a delivered module's source text must be listed), deliveries through numbat's own importers (embedded, file system, two-root file system with overrides, chained user directory) and a module-list check complete it. The canonical (reference) delivery runs on a short-lived thread of its own.",
        note="Trusted: the simulator and digest; exchange rates pinned by numbat's own test stub; units::currencies evaluated with rate 1.0.",
        technique="deterministic simulation: seeded delivery schedules (reorder, duplicate, batch) of module imports through an instrumented importer and through numbat's own importers; convergence oracle; exhaustive ordered pairs in thorough",
        ref="§5 C17"),
    "C18": dict(
        text="Seeded search over operation histories on up to six simultaneously live list handles (construction, clone, drop, push_front/back, tail, head, ==, Debug) with a Vec reference model compared on all handles after every operation, plus panicking element clones as a fault, plus the same representation driven through the interpreter on sessions cloned mid-way. The drop/clone schedule decides which code path (in place vs copy) each operation takes. Element equality is deliberately coarser than identity (like 1 m == 100 cm) with twin pushes; the interpreter-level sub-batch has unit, string and nested-list modes and renders expected scalars through numbat itself.",
        note="Trusted: the Vec model and the harness. Cross-thread sub-operation interleavings are argued unobservable (all mutators take &mut self, no Weak) and not simulated.",
        technique="deterministic simulation: seeded schedules of operations, clones and drops over shared-storage handles, fault injection in element Clone, reference-model oracle",
        ref="§5 C18"),
    "C22": dict(
        text="The real numbat binary run as a black box in a sandboxed environment on generated scripts (all-succeeding or with one fault at a seeded position and stage) delivered as file, as -e arguments or split, plus environment faults (missing/dir/non-UTF-8 file, corrupt config, failing init.nbt); exit status, stdout markers, stderr and file/-e equivalence are checked against a by-construction model. Further oracles: a Rust panic of the tool (exit 101) and a failing run whose stderr is nothing but the tail every failing run prints (learnt from the binary) are violations; user modules in the configuration directory (healthy or broken), very long printed lines and more than a thousand prints in one input are part of the workload.",
        note="Trusted: the by-construction outcome model and the sandbox. Output-side faults (closed/full stdout) not asserted. Weakest fit for the technique: there is no schedule, only fault position x stage x channel x environment.",
        technique="deterministic simulation at process level: seeded fault position x stage x delivery channel x environment faults against the real binary; by-construction outcome model",
        ref="§5 C22"),
}

NA = {
    "C01": "pure function of one program (type soundness vs VM): no schedule, clock, fault or history to simulate; would be input generation + a dimension oracle (PBT), not simulation",
    "C02": "accept/reject equivalence and inferred types are pure functions of the input; the only failure-related clause (a rejected input defines nothing) is exercised by C06's type-error faults",
    "C03": "pure arithmetic over expression trees and unit definitions; no state, time or failure involved",
    "C04": "pure function of (quantity, target unit); pair enumeration is not simulation",
    "C05": "pure function of (unit registry, value); nothing evolves or fails",
    "C08": "crash/hang freedom over arbitrary single inputs is fuzzing with a crash oracle, not simulation (history-dependent panics are reported under C06/C07 as divergences)",
    "C09": "compiler/VM correctness against a reference evaluator is a pure function of the program (differential testing / translation validation)",
    "C10": "pure function of the input text",
    "C11": "pure algebraic identity over pairs of quantities",
    "C12": "pure algebraic identity over pairs/triples of quantities",
    "C13": "finite enumeration over the loaded prelude's (alias, prefix) table; no history or fault",
    "C14": "pure function of (f64, format options)",
    "C15": "pure round-trip over one statement in a fixed session",
    "C16": "pure property of the type checker on one definition plus call sites",
    "C19": "universally quantified over (instant, duration, zone), never reads the clock; pure function of its inputs and the tz database",
    "C20": "pure function from markup/diagnostic to a string; write boundaries and failures are not part of the property",
    "C21": "the predicates are pure functions of their arguments; the abort clause coincides with C06's runtime-error fault and is exercised there",
    "C23": "pure numeric round-trips over function domains",
    "C24": "a fixed finite set of deterministic snippets; running them is a regression test with nothing to schedule or fail",
}

def built(pid):
    return os.path.exists(os.path.join(ROOT, "sim", "src", pid.lower() + ".rs"))

def main():
    hooks_commits = subprocess.run(
        ["git", "-C", "/repo", "log", "--format=%H %s"], capture_output=True, text=True).stdout.splitlines()
    hook_shas = [l.split()[0] for l in hooks_commits if "verif hook" in l]
    checks = []
    na = []
    for pid, c in CLAIMED.items():
        if not built(pid):
            na.append({"property_id": pid, "reason": "simulation check designed (DESIGN.md %s) but not built yet in this revision" % c["ref"]})
            continue
        checks.append({
            "property_id": pid,
            "quick_cmd": "./check %s --tier quick" % pid,
            "thorough_cmd": "./check %s --tier thorough" % pid,
            "evidence_file": "/verif/evidence/%s.json" % pid,
            "replay_cmd_template": "./check replay {path}",
            "engine": "nbsim",
            "level_claimed": {"category": "exploration", "text": c["text"], "design_ref": "DESIGN.md " + c["ref"]},
            "level_note": c["note"],
            "technique": c["technique"],
        })
    for pid, r in NA.items():
        na.append({"property_id": pid, "reason": r})
    na.sort(key=lambda x: x["property_id"])
    m = {
        "version": 1,
        "setup_cmd": "./check build",
        "hooks": {
            "guard": "cargo feature `verif-hooks` of crate numbat (off by default)",
            "enable": "nbsim depends on numbat with features=[\"verif-hooks\"] (sim/Cargo.toml); the CLI binary used by C22/C07 is built without it",
            "baseline_off_cmd": "cd /repo && cargo nextest run --workspace --no-fail-fast --test-threads 8 --offline",
            "source_commits": hook_shas,
            "add_only": True,
        },
        "engines": [{
            "name": "nbsim",
            "path": "sim/",
            "serves_properties": [c["property_id"] for c in checks],
            "kind_free_text": "single-process deterministic simulator: one PRNG (VERIF_SEED) decides workload, schedule and faults; literal JSON traces are minimised and replayed",
        }],
        "checks": checks,
        "not_applicable": na,
        "notes": "Technique family: deterministic simulation with fault injection. Exit 2 = harness error (never a violation). KNOWN_FINDINGS.txt lists recorded/fixed defects. See DESIGN.md.",
    }
    with open(os.path.join(ROOT, "MANIFEST.json"), "w") as f:
        json.dump(m, f, indent=2)
        f.write("\n")

main()
