#!/usr/bin/env bash
# Sensitivity run: applies each mutant in tools/mutants to /repo, runs the matching quick check
# with a reduced budget, restores /repo, and records whether the check raised a violation.
# Usage: tools/run_mutants.sh [id ...]      (default: all)
set -u
ROOT="$(cd "$(dirname "${BASH_SOURCE[0]}")/.." && pwd)"
cd "$ROOT"
if [ -n "$(git -C /repo status --porcelain)" ]; then echo "refusing: /repo is not clean"; exit 2; fi
OUT="$ROOT/tools/mutants/results.tsv"
: > "$OUT.tmp"
budget() { case "$1" in C06) echo 1500;; C07) echo 2500;; C17) echo 600;; C18) echo 300000;; C22) echo 400;; esac; }
ids=("$@")
python3 - "$ROOT/tools/mutants/index.json" "${ids[@]}" > /tmp/mutants.list <<'PY'
import json,sys
idx=json.load(open(sys.argv[1])); want=set(sys.argv[2:])
for m in idx:
    if want and m["id"] not in want: continue
    print(m["id"], m["property"], m["expect"])
PY
while read -r id prop expect; do
  git -C /repo apply "$ROOT/tools/mutants/$id.diff" || { echo "$id apply-failed" | tee -a "$OUT.tmp"; git -C /repo checkout -- .; continue; }
  props="$prop"; [ "$prop" = ALL ] && props="C06 C07 C17 C18 C22"
  for p in $props; do
    log="/tmp/mutant-$id-$p.log"
    ./check "$p" --tier quick --runs "$(budget "$p")" --evidence "/tmp/mutant-ev-$id-$p.json" > "$log" 2>&1
    code=$?
    first=$(grep -m1 -A0 "oracle=" "$log" | cut -c1-220)
    verdict="missed"; [ $code -eq 1 ] && verdict="caught"; [ $code -eq 2 ] && verdict="harness-error"
    [ "$expect" = benign ] && { [ $code -eq 0 ] && verdict="quiet(ok)" || verdict="FALSE-ALARM"; }
    printf "%s\t%s\t%s\t%s\texit=%s\t%s\n" "$id" "$p" "$expect" "$verdict" "$code" "$first" | tee -a "$OUT.tmp"
  done
  git -C /repo checkout -- .
  rm -rf "$ROOT/replays"
done < /tmp/mutants.list
mv "$OUT.tmp" "$OUT"
