#!/usr/bin/env python3
"""Creates the sensitivity mutants (DESIGN §2.7) as patch files against /repo HEAD.
Each mutant is produced by an exact string replacement, saved as tools/mutants/<id>.diff, and the
tree is restored immediately. Nothing is ever committed to /repo."""
import subprocess, json, os, sys

REPO = "/repo"
OUT = os.path.join(os.path.dirname(os.path.abspath(__file__)), "mutants")

def sh(*a, **k):
    return subprocess.run(a, capture_output=True, text=True, **k)

MUTANTS = [
    # id, property, expectation, file, old, new, description
    ("m06a", "C06", "caught", "numbat/src/lib.rs",
     "            self.interpreter = interpreter_old;\n", "",
     "interpreter (VM, globals, unit registry) not restored after a run-time error"),
    ("m06b", "C06", "caught", "numbat/src/lib.rs",
     "            self.typechecker = typechecker_old;\n            self.interpreter = interpreter_old;\n",
     "            self.interpreter = interpreter_old;\n",
     "type checker not restored after a run-time error"),
    ("m06c", "C06", "caught", "numbat/src/lib.rs",
     "            self.prefix_transformer = prefix_transformer_old.clone();\n            self.typechecker = typechecker_old.clone();\n",
     "            self.typechecker = typechecker_old.clone();\n",
     "name resolution state not restored after a type error"),
    ("m06d", "C06", "caught", "numbat/src/lib.rs",
     "            self.interpreter = interpreter_old;\n            self.resolver.imported_modules = imported_modules_old;\n",
     "            self.interpreter = interpreter_old;\n",
     "F1 fix reverted on the run-time error path only"),
    ("m06e", "C06", "benign", "numbat/src/vm.rs",
     "            self.stack = old_stack;\n", "",
     "NEGATIVE CONTROL: VM-level stack cleanup removed (masked by the Context-level restore of the whole interpreter)"),
    ("m06f", "C06", "caught", "numbat/src/lib.rs",
     "                self.resolver.imported_modules = imported_modules_old;\n                return Err(Box::new(NumbatError::ResolverError(err)));",
     "                return Err(Box::new(NumbatError::ResolverError(err)));",
     "F1 fix reverted on the resolver error path only (unknown module / parse error inside a module)"),
    ("m07a", "C07", "caught", "numbat/src/command.rs",
     "                            include_err_lines: false,", "                            include_err_lines: true,",
     "save also writes failing lines"),
    ("m07b", "C07", "benign", "numbat/src/command.rs",
     "                            trim_lines: true,", "                            trim_lines: false,",
     "NEGATIVE CONTROL: save does not trim lines (white space around saved entries does not change what a replay does; DESIGN §7)"),
    ("m07e", "C07", "caught", "numbat/src/session_history.rs",
     "            writeln!(w, \"{input}\").map_err(&err_fn)?", "            write!(w, \"{input} \").map_err(&err_fn)?",
     "save separates lines by a space instead of a newline"),
    ("m07g", "C07", "benign", "numbat/src/vm.rs",
     "                        self.last_result = Some(return_value.clone());\n",
     "                        if self.last_result.is_none() {\n                            self.last_result = Some(return_value.clone());\n                        }\n",
     "NEGATIVE CONTROL for C07: ans/_ keeps the first result of the session instead of the last — wrong, but in every execution mode alike, so no mode disagrees (DESIGN §7)"),
    ("m17a", "C17", "caught", "numbat/src/resolver.rs",
     "                    if !self.imported_modules.iter().any(|m| &m.0 == module_path) {",
     "                    if !self.imported_modules.iter().any(|m| &m.0 == module_path && m.0.len() > 1) {",
     "import de-duplication ignores top-level (single-segment) modules"),
    ("m17b", "C17", "caught", "numbat/modules/extra/color.nbt",
     "use core::scalar\n", "use core::scalar\nlet tau = 6\n",
     "a module redefines a constant of another module"),
    ("m17c", "C17", "caught", "numbat/modules/units/stoney.nbt",
     "use physics::constants\n", "",
     "a module drops a `use` line it needs (works only if something else imported it first)"),
    ("m18a", "C18", "caught", "numbat/src/list.rs",
     "            self.view = Some((1, self.len()));", "            self.view = Some((1, self.len() - 1));",
     "tail creates a view that is one too short"),
    ("m18b", "C18", "caught", "numbat/src/list.rs",
     "                *start -= 1;\n                inner[*start] = element;", "                inner[*start] = element;\n                *start -= 1;",
     "push_front into a dead slot overwrites the current first element"),
    ("m18c", "C18", "caught", "numbat/src/list.rs",
     "            Ok(mut solely_owned) => solely_owned.swap_remove_front(front),", "            Ok(mut solely_owned) => solely_owned.swap_remove_front(0),",
     "head of a solely owned view returns the element of the dead slot 0"),
    ("m18d", "C18", "benign", "numbat/src/list.rs",
     "        if Arc::ptr_eq(&self.alloc, &other.alloc) && self.view == other.view {", "        if Arc::ptr_eq(&self.alloc, &other.alloc) {",
     "equality short-cut ignores the view"),
    ("m18e", "C18", "benign", "numbat/src/list.rs",
     "        if Arc::strong_count(&self.alloc) != 1 {", "        if Arc::strong_count(&self.alloc) > 2 {",
     "NEGATIVE CONTROL: copies only with more than two owners; Arc::make_mut still copies, so behaviour is unchanged"),
    ("m18f", "C18", "caught", "numbat/src/list.rs",
     "            self.alloc = Arc::new(self.iter().cloned().collect());\n            self.view = None;",
     "            self.alloc = Arc::new(self.iter().cloned().collect());",
     "copy-on-write copies the visible window but keeps the old view indices"),
    ("m22a", "C22", "caught", "numbat-cli/src/main.rs",
     "        writeln!(stdout, \"{e:#}\").unwrap();\n        std::process::exit(1);", "        writeln!(stdout, \"{e:#}\").unwrap();\n        std::process::exit(0);",
     "failure reported with exit status 0"),
    ("m22b", "C22", "caught", "numbat/src/lib.rs",
     "        let writer = StandardStream::stderr(color);", "        let writer = StandardStream::stdout(color);",
     "diagnostics written to standard output"),
    ("m22c", "C22", "caught", "numbat-cli/src/main.rs",
     "expressions.iter().join(\"\\n\")", "expressions.iter().join(\" \")",
     "-e expressions joined with a space instead of a newline"),
    ("m22d", "C22", "benign", "numbat-cli/src/main.rs",
     "                run_result = run_result.and(result_status);", "                run_result = run_result.or(result_status);",
     "NEGATIVE CONTROL: .or instead of .and — unreachable difference because a failing input bails out before"),
    ("m22f", "C22", "caught", "numbat-cli/src/main.rs",
     "                    std::ops::ControlFlow::Break(_) => {\n                        bail!(\"Interpreter stopped\")\n                    }",
     "                    std::ops::ControlFlow::Break(_) => Err(anyhow::anyhow!(\"Interpreter stopped\")),",
     "a failing file no longer stops the run: the -e block is still evaluated"),
    ("m22g", "C22", "caught", "numbat/src/diagnostic.rs",
     "                            .map(|(i, c)| i + c.len_utf8())\n                            .last()\n                            .unwrap_or_default();\n                        let error_cause = &error_cause[..end_idx]",
     "                            .map(|(i, _)| i)\n                            .last()\n                            .unwrap_or_default();\n                        let error_cause = &error_cause[..=end_idx]",
     "F6 fix reverted: the backtrace summary of a run-time error is cut inside a multi-byte character (CLI crashes)"),
    ("ctl3", "ALL", "benign", "numbat/src/resolver.rs",
     "format!(\"<input:{}>\", self.text_code_source_count)", "format!(\"<cmdline #{}>\", self.text_code_source_count)",
     "BENIGN CONTROL: other label for text inputs in diagnostics (C22 learns the labels from the binary)"),
    ("ctl4", "ALL", "benign", "numbat/src/pretty_print.rs",
     "            digit_grouping_threshold: 6,", "            digit_grouping_threshold: 3,",
     "BENIGN CONTROL (for the five claimed properties): numbers are grouped from 1_000 on (C18 level 2 renders expected scalars through numbat)"),
    ("ctl5", "ALL", "benign", "numbat/src/lib.rs",
     "                help += m::text(\"A unit of: \") + md.readable_type + m::nl();", "                help += m::text(\"Unit of: \") + md.readable_type + m::nl();",
     "BENIGN CONTROL: reworded `info` text"),
    ("ctl1", "ALL", "benign", "numbat/src/interpreter/mod.rs",
     "    #[error(\"Division by zero\")]", "    #[error(\"Division by 0\")]",
     "BENIGN CONTROL: reworded error message"),
    ("ctl2", "ALL", "benign", "numbat/modules/units/misc.nbt",
     None, "\nunit verifcontrolunit: Length = 3 m\n",
     "BENIGN CONTROL: a unit added to a standard-library module"),
]

def main():
    os.makedirs(OUT, exist_ok=True)
    if sh("git", "-C", REPO, "status", "--porcelain").stdout.strip():
        print("refusing: /repo working tree is not clean"); sys.exit(2)
    index = []
    for (mid, prop, expect, path, old, new, desc) in MUTANTS:
        p = os.path.join(REPO, path)
        s = open(p).read()
        if old is None:
            s2 = s + new
        else:
            if s.count(old) != 1:
                print("SKIP %s: pattern occurs %d times in %s" % (mid, s.count(old), path)); continue
            s2 = s.replace(old, new)
        open(p, "w").write(s2)
        d = sh("git", "-C", REPO, "diff").stdout
        sh("git", "-C", REPO, "checkout", "--", ".")
        open(os.path.join(OUT, mid + ".diff"), "w").write(d)
        index.append({"id": mid, "property": prop, "expect": expect, "description": desc, "file": path})
    json.dump(index, open(os.path.join(OUT, "index.json"), "w"), indent=1)
    print("wrote %d mutants" % len(index))

main()
