//! C18 — lists behave as immutable values despite internal sharing.
//!
//! Level 1: the public `numbat::list::NumbatList<T>` API driven directly: up to MAX_HANDLES live
//! handles, a seeded scheduler decides which handle acts (or is cloned / dropped) next, a
//! `Vec<u64>` per handle is the reference model, all live handles are compared after every
//! operation. Fault configuration `clone-panic`: the element type's `Clone` panics at the j-th
//! clone.
//! Level 2 (see c18_interp.rs) drives the same code through the interpreter.

use std::cell::Cell;
use std::collections::VecDeque;

use numbat::list::NumbatList;
use serde_json::{Value, json};

use crate::engine::{ExecResult, Prop, Tier};
use crate::rng::{Fnv, Rng};
use crate::sess::trap;

pub const MAX_HANDLES: usize = 6;

thread_local! {
    /// Countdown to an injected panic in `Elem::clone` (0 = disabled).
    static CLONE_FUSE: Cell<u64> = const { Cell::new(0) };
    static CLONES: Cell<u64> = const { Cell::new(0) };
}

/// Element type of the level-1 lists. Like numbat's `Quantity` (`1 m == 100 cm`), its equality
/// is coarser than identity: two elements are `==` when their keys (value / 16) agree, whatever
/// their tag (value % 16). The model and all content checks compare the full value, so a list
/// that keeps an "equal" element instead of the one it was given is noticed (seeded S18d/S18e).
#[derive(Debug)]
pub struct Elem(pub u64);

pub fn key_of(v: u64) -> u64 {
    v / 16
}

impl PartialEq for Elem {
    fn eq(&self, other: &Self) -> bool {
        key_of(self.0) == key_of(other.0)
    }
}

impl Clone for Elem {
    fn clone(&self) -> Self {
        CLONES.with(|c| c.set(c.get() + 1));
        let fire = CLONE_FUSE.with(|f| {
            let v = f.get();
            if v == 0 {
                false
            } else {
                f.set(v - 1);
                v == 1
            }
        });
        if fire {
            panic!("verif: injected clone panic");
        }
        Elem(self.0)
    }
}

#[derive(Clone, Debug, PartialEq)]
pub enum Op {
    New,
    WithCap(usize),
    /// build like `Op::BuildList` in the VM: with_capacity(n) then n × push_front
    Build(Vec<u64>),
    FromDeque(Vec<u64>),
    Clone(usize),
    Drop(usize),
    PushFront(usize, u64),
    PushBack(usize, u64),
    Tail(usize),
    /// consume the handle
    Head(usize),
    /// `clone().head()` — what `head(global)` does in the interpreter
    HeadOfClone(usize),
    Observe(usize),
    Eq(usize, usize),
    /// arm the clone fuse: the j-th element clone from now on panics
    ArmClonePanic(u64),
}

impl Op {
    pub fn to_json(&self) -> Value {
        match self {
            Op::New => json!(["new"]),
            Op::WithCap(c) => json!(["with_capacity", c]),
            Op::Build(v) => json!(["build", v]),
            Op::FromDeque(v) => json!(["from_deque", v]),
            Op::Clone(i) => json!(["clone", i]),
            Op::Drop(i) => json!(["drop", i]),
            Op::PushFront(i, v) => json!(["push_front", i, v]),
            Op::PushBack(i, v) => json!(["push_back", i, v]),
            Op::Tail(i) => json!(["tail", i]),
            Op::Head(i) => json!(["head", i]),
            Op::HeadOfClone(i) => json!(["head_of_clone", i]),
            Op::Observe(i) => json!(["observe", i]),
            Op::Eq(i, j) => json!(["eq", i, j]),
            Op::ArmClonePanic(j) => json!(["arm_clone_panic", j]),
        }
    }
    pub fn from_json(v: &Value) -> Option<Op> {
        let a = v.as_array()?;
        let name = a.first()?.as_str()?;
        let n = |k: usize| a.get(k).and_then(|x| x.as_u64());
        let list = |k: usize| -> Option<Vec<u64>> {
            Some(
                a.get(k)?
                    .as_array()?
                    .iter()
                    .filter_map(|x| x.as_u64())
                    .collect(),
            )
        };
        Some(match name {
            "new" => Op::New,
            "with_capacity" => Op::WithCap(n(1)? as usize),
            "build" => Op::Build(list(1)?),
            "from_deque" => Op::FromDeque(list(1)?),
            "clone" => Op::Clone(n(1)? as usize),
            "drop" => Op::Drop(n(1)? as usize),
            "push_front" => Op::PushFront(n(1)? as usize, n(2)?),
            "push_back" => Op::PushBack(n(1)? as usize, n(2)?),
            "tail" => Op::Tail(n(1)? as usize),
            "head" => Op::Head(n(1)? as usize),
            "head_of_clone" => Op::HeadOfClone(n(1)? as usize),
            "observe" => Op::Observe(n(1)? as usize),
            "eq" => Op::Eq(n(1)? as usize, n(2)?  as usize),
            "arm_clone_panic" => Op::ArmClonePanic(n(1)?),
            _ => return None,
        })
    }
}

/// Model of one handle: contents + bookkeeping of the *expected* sharing structure (used for
/// coverage accounting only, never for a verdict).
#[derive(Clone)]
struct MHandle {
    items: Vec<u64>,
    group: u64,
    viewed: bool,
    start_gt0: bool,
}

struct World {
    real: Vec<Option<NumbatList<Elem>>>,
    model: Vec<Option<MHandle>>,
    next_group: u64,
}

impl World {
    fn new() -> Self {
        World {
            real: vec![],
            model: vec![],
            next_group: 0,
        }
    }
    fn live(&self) -> Vec<usize> {
        (0..self.model.len())
            .filter(|i| self.model[*i].is_some())
            .collect()
    }
    fn group_size(&self, g: u64) -> usize {
        self.model
            .iter()
            .flatten()
            .filter(|h| h.group == g)
            .count()
    }
    fn push(&mut self, r: NumbatList<Elem>, items: Vec<u64>) {
        self.next_group += 1;
        self.real.push(Some(r));
        self.model.push(Some(MHandle {
            items,
            group: self.next_group,
            viewed: false,
            start_gt0: false,
        }));
    }
}

fn bucket(n: usize) -> &'static str {
    match n {
        0 => "0",
        1 => "1",
        2..=3 => "2-3",
        4..=8 => "4-8",
        _ => "9+",
    }
}

/// Execute a literal operation list against the real list and the model.
pub fn exec_ops(ops: &[Op], res: &mut ExecResult) {
    let mut w = World::new();
    let mut fp = Fnv::default();
    let mut shared_mutation = false;
    CLONE_FUSE.with(|f| f.set(0));
    CLONES.with(|c| c.set(0));

    for (step, op) in ops.iter().enumerate() {
        let valid = |i: &usize| *i < w.model.len() && w.model[*i].is_some();
        // skip operations on dead handles (can appear after shrinking)
        let ok = match op {
            Op::Clone(i)
            | Op::Drop(i)
            | Op::PushFront(i, _)
            | Op::PushBack(i, _)
            | Op::Tail(i)
            | Op::Head(i)
            | Op::HeadOfClone(i)
            | Op::Observe(i) => valid(i),
            Op::Eq(i, j) => valid(i) && valid(j),
            _ => true,
        };
        if !ok {
            continue;
        }
        res.bump("ops");
        // coverage cell before the operation
        let cell = |w: &World, name: &str, i: usize| -> String {
            let h = w.model[i].as_ref().unwrap();
            format!(
                "{name}|g{}|v{}|s{}|l{}",
                bucket(w.group_size(h.group).min(3)),
                h.viewed as u8,
                h.start_gt0 as u8,
                bucket(h.items.len())
            )
        };
        let fuse_armed = CLONE_FUSE.with(|f| f.get()) > 0;
        let mut panicked: Option<(String, Option<usize>)> = None;
        match op {
            Op::New => {
                res.bump("op.new");
                w.push(NumbatList::new(), vec![]);
            }
            Op::WithCap(c) => {
                res.bump("op.with_capacity");
                w.push(NumbatList::with_capacity(*c), vec![]);
            }
            Op::Build(vals) => {
                res.bump("op.build");
                // as the VM does: values are popped from the stack last-first and pushed to the front
                let r = trap(|| {
                    let mut l = NumbatList::with_capacity(vals.len());
                    for v in vals.iter().rev() {
                        l.push_front(Elem(*v));
                    }
                    l
                });
                match r {
                    Ok(l) => w.push(l, vals.clone()),
                    Err(p) => panicked = Some((p, None)),
                }
            }
            Op::FromDeque(vals) => {
                res.bump("op.from_deque");
                // only `From<VecDeque<Value>> for Value` exists publicly; for the generic list the
                // equivalent construction is push_back in order
                let r = trap(|| {
                    let d: VecDeque<u64> = vals.iter().copied().collect();
                    let mut l = NumbatList::new();
                    for v in d {
                        l.push_back(Elem(v));
                    }
                    l
                });
                match r {
                    Ok(l) => w.push(l, vals.clone()),
                    Err(p) => panicked = Some((p, None)),
                }
            }
            Op::Clone(i) => {
                res.bump("op.clone");
                res.cell(&cell(&w, "clone", *i));
                let r = w.real[*i].as_ref().unwrap().clone();
                let m = w.model[*i].clone().unwrap();
                w.real.push(Some(r));
                w.model.push(Some(m));
            }
            Op::Drop(i) => {
                res.bump("op.drop");
                res.cell(&cell(&w, "drop", *i));
                let g = w.model[*i].as_ref().unwrap().group;
                if w.group_size(g) > 1 {
                    shared_mutation = true;
                    res.bump("probe.drop_while_shared");
                }
                w.real[*i] = None;
                w.model[*i] = None;
            }
            Op::PushFront(i, v) | Op::PushBack(i, v) => {
                let front = matches!(op, Op::PushFront(..));
                let name = if front { "push_front" } else { "push_back" };
                res.bump(&format!("op.{name}"));
                res.cell(&cell(&w, name, *i));
                let g = w.model[*i].as_ref().unwrap().group;
                let shared = w.group_size(g) > 1;
                {
                    let h = w.model[*i].as_ref().unwrap();
                    if shared {
                        shared_mutation = true;
                        res.bump("probe.push_while_shared");
                    } else if h.viewed && front && h.start_gt0 {
                        res.bump("probe.push_front_into_dead_slot");
                    } else if h.viewed {
                        res.bump("probe.push_on_sole_view");
                    }
                }
                let real = w.real[*i].as_mut().unwrap();
                let r = trap(|| {
                    if front {
                        real.push_front(Elem(*v))
                    } else {
                        real.push_back(Elem(*v))
                    }
                });
                match r {
                    Ok(()) => {
                        let ng = if shared {
                            w.next_group += 1;
                            Some(w.next_group)
                        } else {
                            None
                        };
                        let h = w.model[*i].as_mut().unwrap();
                        if front {
                            h.items.insert(0, *v);
                            if !shared && h.viewed && h.start_gt0 {
                                // start moves down by one; may reach 0 — unknown to the model, keep flag
                            }
                        } else {
                            h.items.push(*v);
                        }
                        if let Some(ng) = ng {
                            h.group = ng;
                            h.viewed = false;
                            h.start_gt0 = false;
                        }
                    }
                    Err(p) => panicked = Some((p, Some(*i))),
                }
            }
            Op::Tail(i) => {
                res.bump("op.tail");
                res.cell(&cell(&w, "tail", *i));
                let real = w.real[*i].as_mut().unwrap();
                let r = trap(|| real.tail());
                let h = w.model[*i].as_mut().unwrap();
                match r {
                    Ok(Ok(())) => {
                        if h.items.is_empty() {
                            res.fail(
                                "list-model",
                                format!("step {step}: tail of an empty list returned Ok"),
                            );
                        } else {
                            h.items.remove(0);
                            h.viewed = true;
                            h.start_gt0 = true;
                        }
                    }
                    Ok(Err(e)) => {
                        res.bump("probe.tail_of_empty");
                        if !h.items.is_empty() {
                            res.fail(
                                "list-model",
                                format!(
                                    "step {step}: tail of non-empty list {:?} failed: {e}",
                                    h.items
                                ),
                            );
                        }
                    }
                    Err(p) => panicked = Some((p, Some(*i))),
                }
            }
            Op::Head(i) | Op::HeadOfClone(i) => {
                let consume = matches!(op, Op::Head(_));
                res.bump(if consume { "op.head" } else { "op.head_of_clone" });
                res.cell(&cell(&w, if consume { "head" } else { "head_of_clone" }, *i));
                let expected = w.model[*i].as_ref().unwrap().items.first().copied();
                let g = w.model[*i].as_ref().unwrap().group;
                if consume && w.group_size(g) > 1 {
                    shared_mutation = true;
                    res.bump("probe.head_consumes_shared");
                }
                if consume && w.group_size(g) == 1 && w.model[*i].as_ref().unwrap().start_gt0 {
                    res.bump("probe.head_sole_owner_with_view");
                }
                let l = if consume {
                    w.model[*i] = None;
                    w.real[*i].take().unwrap()
                } else {
                    w.real[*i].as_ref().unwrap().clone()
                };
                let r = trap(move || l.head());
                match r {
                    Ok(got) => {
                        let got = got.map(|e| e.0);
                        if got != expected {
                            res.fail(
                                "list-model",
                                format!("step {step}: head returned {got:?}, model says {expected:?}"),
                            );
                        }
                        fp.write_u64(got.unwrap_or(u64::MAX));
                    }
                    Err(p) => panicked = Some((p, None)),
                }
            }
            Op::Observe(i) => {
                res.bump("op.observe");
                let real = w.real[*i].as_ref().unwrap();
                let r = trap(|| format!("{real:?}"));
                let h = w.model[*i].as_ref().unwrap();
                match r {
                    Ok(s) => {
                        // the exact Debug text is not part of the property; it must only
                        // not crash. (h is the model handle, unused here.)
                        let _ = (s, h);
                    }
                    Err(p) => panicked = Some((p, Some(*i))),
                }
            }
            Op::Eq(i, j) => {
                res.bump("op.eq");
                let a = w.real[*i].as_ref().unwrap();
                let b = w.real[*j].as_ref().unwrap();
                let got = a == b;
                // element equality is by key (see `Elem`)
                let keys = |h: &MHandle| h.items.iter().map(|v| key_of(*v)).collect::<Vec<u64>>();
                let want = keys(w.model[*i].as_ref().unwrap()) == keys(w.model[*j].as_ref().unwrap());
                if want && w.model[*i].as_ref().unwrap().items != w.model[*j].as_ref().unwrap().items {
                    res.bump("probe.eq_of_equal_but_distinct_elements");
                }
                let same_group =
                    w.model[*i].as_ref().unwrap().group == w.model[*j].as_ref().unwrap().group;
                if same_group && i != j {
                    res.bump("probe.eq_same_allocation");
                }
                if got != want {
                    res.fail(
                        "list-model",
                        format!(
                            "step {step}: handle {i} == handle {j} is {got}, model says {want} ({:?} vs {:?})",
                            w.model[*i].as_ref().unwrap().items,
                            w.model[*j].as_ref().unwrap().items
                        ),
                    );
                }
                fp.write_u64(got as u64);
            }
            Op::ArmClonePanic(j) => {
                CLONE_FUSE.with(|f| f.set(*j));
            }
        }

        if let Some((msg, operated)) = panicked {
            let injected = msg.contains("verif: injected clone panic");
            if injected {
                res.bump("fault.clone-panic");
                if let Some(i) = operated {
                    // The operated handle was being mutated when its element type panicked:
                    // nothing is promised about its contents, only that it is still a
                    // well-formed list (observed below like every other handle) and that no
                    // OTHER handle changed. Adopt what is there.
                    let real = w.real[i].as_ref().unwrap();
                    match trap(|| real.iter().map(|e| e.0).collect::<Vec<u64>>()) {
                        Ok(got) => {
                            let h = w.model[i].as_mut().unwrap();
                            if got != h.items {
                                res.bump("probe.clone_panic_left_operated_handle_changed");
                            }
                            h.items = got;
                        }
                        Err(p) => {
                            res.sut_panics.push(p.clone());
                            res.fail(
                                "list-panic",
                                format!("step {step}: handle {i} cannot be read after an injected clone panic: {p}"),
                            );
                        }
                    }
                }
            } else if fuse_armed && msg.contains("injected") {
                // unreachable, kept for clarity
            } else {
                res.sut_panics.push(msg.clone());
                res.fail(
                    "list-panic",
                    format!("step {step}: {:?} panicked: {msg}", op.to_json().to_string()),
                );
            }
        }

        // cross-invariant: every live handle equals its model (an operation on one list never
        // changes another)
        for i in w.live() {
            let real = w.real[i].as_ref().unwrap();
            let h = w.model[i].as_ref().unwrap();
            let r = trap(|| {
                let got: Vec<u64> = real.iter().map(|e| e.0).collect();
                (got, real.len(), real.is_empty())
            });
            match r {
                Ok((got, len, empty)) => {
                    if got != h.items || len != h.items.len() || empty != h.items.is_empty() {
                        res.fail(
                            "list-model",
                            format!(
                                "step {step} ({}): handle {i} holds {got:?} (len {len}, is_empty {empty}), model says {:?}",
                                op.to_json(),
                                h.items
                            ),
                        );
                    }
                }
                Err(p) => {
                    res.sut_panics.push(p.clone());
                    res.fail(
                        "list-panic",
                        format!("step {step}: observing handle {i} panicked: {p}"),
                    );
                }
            }
        }
        if res.violation.is_some() {
            break;
        }
        // abstract state: multiset of (contents, group size) — canonical over handle numbering
        let mut st: Vec<(Vec<u64>, usize, bool)> = w
            .live()
            .into_iter()
            .map(|i| {
                let h = w.model[i].as_ref().unwrap();
                (h.items.clone(), w.group_size(h.group), h.viewed)
            })
            .collect();
        st.sort();
        let mut sf = Fnv::default();
        for (items, g, v) in &st {
            sf.write_u64(items.len() as u64);
            for x in items {
                sf.write_u64(*x);
            }
            sf.write_u64(*g as u64);
            sf.write_u64(*v as u64);
        }
        res.states.insert(sf.0);
        fp.write_u64(sf.0);
        fp.write_str(&op.to_json().to_string());
    }
    CLONE_FUSE.with(|f| f.set(0));
    res.add("element_clones", CLONES.with(|c| c.get()));
    res.fingerprint = fp.0;
    res.nontrivial = shared_mutation;
}

pub fn generate_ops(rng: &mut Rng, fault: bool) -> Vec<Op> {
    // swarm: per-run operation weights and sizes
    let len = rng.range(3, 60) as usize;
    let mut weights: Vec<u32> = (0..13).map(|_| rng.range(0, 6) as u32).collect();
    // always allow some construction and cloning
    weights[0] = weights[0].max(1);
    weights[4] = weights[4].max(1);
    let max_handles = rng.range(2, MAX_HANDLES as i64) as usize;
    let mut ops = vec![];
    let mut live: Vec<bool> = vec![];
    let mut lens: Vec<usize> = vec![];
    // values are key * 16 + tag; fresh values get a new key, "twins" reuse the key of an element
    // that is or was in some list (equal under `==`, different under observation)
    let mut next_val = 16u64;
    let mut next_tag = 0u64;
    let fresh = |n: usize, next_val: &mut u64| -> Vec<u64> {
        (0..n)
            .map(|_| {
                *next_val += 16;
                *next_val
            })
            .collect()
    };
    // the generator's own rough idea of the contents (bias only: which values sit in, or were
    // just removed from, the front and back of each handle)
    let mut contents: Vec<Vec<u64>> = vec![];
    let mut removed: Vec<u64> = vec![];
    let twins = rng.chance(0.6);
    for _ in 0..len {
        let alive: Vec<usize> = (0..live.len()).filter(|i| live[*i]).collect();
        if alive.is_empty() || (alive.len() < max_handles && rng.chance(0.08)) {
            // constructors
            match rng.below(4) {
                0 => {
                    ops.push(Op::New);
                    lens.push(0);
                    contents.push(vec![]);
                }
                1 => {
                    ops.push(Op::WithCap(rng.below(9)));
                    lens.push(0);
                    contents.push(vec![]);
                }
                2 => {
                    let n = rng.below(6);
                    let v = fresh(n, &mut next_val);
                    contents.push(v.clone());
                    ops.push(Op::Build(v));
                    lens.push(n);
                }
                _ => {
                    let n = rng.below(6);
                    let v = fresh(n, &mut next_val);
                    contents.push(v.clone());
                    ops.push(Op::FromDeque(v));
                    lens.push(n);
                }
            }
            live.push(true);
            continue;
        }
        let i = *rng.pick(&alive);
        let k = rng.pick_weighted(&weights);
        match k {
            0..=3 => {
                // mutate
                next_val += 16;
                let mut v = next_val;
                if twins && rng.chance(0.35) {
                    // an element equal (same key) to one that was just removed, or that sits at
                    // an end of some list, but distinguishable from it (other tag)
                    let mut cands: Vec<u64> = removed.iter().rev().take(4).copied().collect();
                    for c in &contents {
                        if let Some(x) = c.first() {
                            cands.push(*x);
                        }
                        if let Some(x) = c.last() {
                            cands.push(*x);
                        }
                    }
                    if !cands.is_empty() {
                        next_tag = next_tag % 15 + 1;
                        let base = *rng.pick(&cands);
                        let t = (base % 16 + next_tag) % 16;
                        v = key_of(base) * 16 + t;
                    }
                }
                if k % 2 == 0 {
                    ops.push(Op::PushFront(i, v));
                    contents[i].insert(0, v);
                } else {
                    ops.push(Op::PushBack(i, v));
                    contents[i].push(v);
                }
                lens[i] += 1;
            }
            4 | 5 => {
                if alive.len() < max_handles {
                    ops.push(Op::Clone(i));
                    live.push(true);
                    lens.push(lens[i]);
                    let c = contents[i].clone();
                    contents.push(c);
                } else {
                    ops.push(Op::Drop(i));
                    live[i] = false;
                }
            }
            6 | 7 => {
                ops.push(Op::Tail(i));
                lens[i] = lens[i].saturating_sub(1);
                if !contents[i].is_empty() {
                    removed.push(contents[i].remove(0));
                }
            }
            8 => {
                ops.push(Op::Drop(i));
                live[i] = false;
            }
            9 => {
                ops.push(Op::Head(i));
                live[i] = false;
            }
            10 => ops.push(Op::HeadOfClone(i)),
            11 => ops.push(Op::Observe(i)),
            _ => {
                let j = *rng.pick(&alive);
                ops.push(Op::Eq(i, j));
            }
        }
        if fault && rng.chance(0.15) {
            ops.push(Op::ArmClonePanic(rng.range(1, 6) as u64));
        }
    }
    ops
}

pub fn ops_to_trace(level: &str, ops: &[Op]) -> Value {
    json!({
        "format": 1,
        "property": "C18",
        "level": level,
        "ops": ops.iter().map(|o| o.to_json()).collect::<Vec<_>>(),
    })
}

pub fn ops_from_trace(trace: &Value) -> Vec<Op> {
    trace["ops"]
        .as_array()
        .map(|a| a.iter().filter_map(Op::from_json).collect())
        .unwrap_or_default()
}

pub fn shrink_ops(trace: &Value) -> Vec<Value> {
    let Some(ops) = trace["ops"].as_array() else {
        return vec![];
    };
    let mut out = vec![];
    let n = ops.len();
    let mk = |ops: Vec<Value>| {
        let mut t = trace.clone();
        t["ops"] = Value::Array(ops);
        t
    };
    // drop suffix, halves, chunks, single ops
    let mut chunk = n / 2;
    while chunk >= 1 {
        let mut start = 0;
        while start < n {
            let end = (start + chunk).min(n);
            let mut v = ops[..start].to_vec();
            v.extend_from_slice(&ops[end..]);
            if v.len() < n {
                out.push(mk(v));
            }
            start += chunk;
        }
        if chunk == 1 {
            break;
        }
        chunk /= 2;
    }
    out
}

pub struct C18;

pub struct C18Worker {
    pub interp: crate::c18_interp::InterpWorker,
}

impl Prop for C18 {
    type Worker = C18Worker;
    fn id(&self) -> &'static str {
        "C18"
    }
    fn new_worker(&self) -> C18Worker {
        C18Worker {
            interp: crate::c18_interp::InterpWorker::new(),
        }
    }
    fn runs(&self, tier: Tier) -> u64 {
        match tier {
            Tier::Quick => 4_000_000,
            Tier::Thorough => 40_000_000,
        }
    }
    fn run(&self, w: &mut C18Worker, seed: u64, run: u64, _tier: Tier) -> (Value, ExecResult) {
        let mut rng = Rng::new(seed);
        // sub-batches: 1 in 500 runs goes through the interpreter (level 2, ~1000× more
        // expensive per run); of the direct-API runs 1 in 4 uses the clone-panic fault
        if run % 500 == 499 {
            let trace = crate::c18_interp::generate(&mut rng);
            let res = self.exec(w, &trace);
            return (trace, res);
        }
        let fault = run % 4 == 3;
        let ops = generate_ops(&mut rng, fault);
        let trace = ops_to_trace(if fault { "api+clone-panic" } else { "api" }, &ops);
        let res = self.exec(w, &trace);
        (trace, res)
    }
    fn exec(&self, w: &mut C18Worker, trace: &Value) -> ExecResult {
        let mut res = ExecResult::default();
        match trace["level"].as_str().unwrap_or("api") {
            "interp" => {
                res.bump("runs.level2-interpreter");
                crate::c18_interp::exec(&mut w.interp, trace, &mut res);
            }
            lvl => {
                res.bump(if lvl == "api" {
                    "runs.level1-api-fault-free"
                } else {
                    "runs.level1-api-clone-panic"
                });
                let ops = ops_from_trace(trace);
                exec_ops(&ops, &mut res);
            }
        }
        res
    }
    fn shrink(&self, trace: &Value) -> Vec<Value> {
        match trace["level"].as_str().unwrap_or("api") {
            "interp" => crate::c18_interp::shrink(trace),
            _ => shrink_ops(trace),
        }
    }
    fn rule(&self) -> String {
        "Each run is a seeded history (3-60 operations; per-run operation weights, handle limit 2-6) over \
         simultaneously live NumbatList handles: new/with_capacity/build-by-push_front/clone/drop/push_front/\
         push_back/tail/head (consuming)/head of a clone/Debug/==, every pushed value unique, element equality \
         coarser than identity (key = value / 16) with 'twin' pushes (equal key, other tag) of elements at the \
         ends of lists or just removed by tail; 1 run in 4 \
         additionally arms a panic in the element type's Clone; 1 run in 500 drives the list FFI and list \
         library functions through the interpreter on sessions that are cloned mid-way (40 % of those in unit \
         mode: lengths written as `x m` / `100x cm`; nested lists built from list globals). After every operation \
         all live handles are compared with a Vec model. A run is non-trivial if at least two handles shared \
         one allocation and one of them was pushed to, consumed by head or dropped while shared (level 2: a \
         list global was used by two sessions or two globals and then extended). Distinct = distinct \
         fingerprint of (operation list, observations, abstract states)."
            .to_string()
    }
    fn expected_probes(&self) -> Vec<&'static str> {
        vec![
            "probe.drop_while_shared",
            "probe.push_while_shared",
            "probe.push_front_into_dead_slot",
            "probe.push_on_sole_view",
            "probe.tail_of_empty",
            "probe.head_consumes_shared",
            "probe.head_sole_owner_with_view",
            "probe.eq_same_allocation",
            "fault.clone-panic",
            "runs.level2-interpreter",
        ]
    }
    fn assumptions(&self) -> Vec<String> {
        vec![
            "sub-operation interleavings across threads are not simulated: every mutating method takes &mut self and no Weak is ever created (DESIGN.md §5 C18)".into(),
            "the sharing structure tracked by the model is used for coverage accounting only".into(),
        ]
    }
    fn extra_evidence(&self, _tier: Tier) -> Value {
        json!({
            "components": {
                "real": ["numbat::list::NumbatList (current /repo working tree)", "ffi/lists.rs, vm.rs Op::BuildList, core::lists module (level 2)"],
                "stub": ["element type (u64 wrapper whose Clone can be made to panic)", "module importer (SimImporter over the real module files)"]
            },
            "simulated_time": "logical: list operations / inputs submitted (no clock in this code)",
        })
    }
}
