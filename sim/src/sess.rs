//! Session seam: a numbat `Context` driven through its public API, with
//!  * the module importer replaced by `SimImporter` (real files + synthetic modules + faults),
//!  * printed output captured,
//!  * run-time fault injection / step counting through the `verif-hooks` feature,
//!  * panics of the system under test trapped and turned into an outcome.

use std::collections::{BTreeMap, BTreeSet, HashMap};
use std::panic::{AssertUnwindSafe, catch_unwind};
use std::path::PathBuf;
use std::sync::{Arc, Mutex};

use numbat::markup::Markup;
use numbat::module_importer::ModuleImporter;
use numbat::pretty_print::PrettyPrint;
use numbat::resolver::{CodeSource, ModulePath, ResolverError};
use numbat::{Context, FormatOptions, InterpreterSettings, NumbatError};

/// Root of the numbat checkout whose module files are read at run time. Always `/repo` for the
/// registered checks; tooling that tests scratch copies (mutation sweeps) sets `NBSIM_REPO`.
pub fn repo_root() -> String {
    std::env::var("NBSIM_REPO").unwrap_or_else(|_| "/repo".to_string())
}

pub fn modules_dir() -> String {
    format!("{}/numbat/modules", repo_root())
}
pub const STEP_BUDGET: u64 = 3_000_000;

#[derive(Clone, Debug, PartialEq, Eq)]
pub struct ImportEvent {
    pub tag: String,
    pub module: String,
    pub found: bool,
}

#[derive(Default)]
pub struct ImpState {
    pub synthetic: BTreeMap<String, String>,
    pub unavailable: BTreeSet<String>,
    pub log: Vec<ImportEvent>,
    pub tag: String,
    pub fault_fired: u64,
    cache: HashMap<String, Option<(String, PathBuf)>>,
}

#[derive(Clone)]
pub struct SimImporter {
    root: PathBuf,
    pub st: Arc<Mutex<ImpState>>,
}

impl SimImporter {
    pub fn new() -> Self {
        SimImporter {
            root: PathBuf::from(modules_dir()),
            st: Arc::new(Mutex::new(ImpState::default())),
        }
    }

    /// Forget everything that belongs to one run (the file cache is kept).
    pub fn reset_run(&self) {
        let mut st = self.st.lock().unwrap();
        st.synthetic.clear();
        st.unavailable.clear();
        st.log.clear();
        st.tag.clear();
        st.fault_fired = 0;
    }

    pub fn set_tag(&self, tag: &str) {
        let mut st = self.st.lock().unwrap();
        if st.tag != tag {
            st.tag = tag.to_string();
        }
    }

    pub fn add_module(&self, name: &str, code: &str) {
        self.st
            .lock()
            .unwrap()
            .synthetic
            .insert(name.to_string(), code.to_string());
    }

    pub fn set_unavailable(&self, names: &[String]) {
        let mut st = self.st.lock().unwrap();
        st.unavailable = names.iter().cloned().collect();
    }

    pub fn log_len(&self) -> usize {
        self.st.lock().unwrap().log.len()
    }

    pub fn log_since(&self, from: usize) -> Vec<ImportEvent> {
        self.st.lock().unwrap().log[from..].to_vec()
    }
}

impl ModuleImporter for SimImporter {
    fn import(&self, path: &ModulePath) -> Option<(String, Option<PathBuf>)> {
        let name = path.to_string();
        let mut st = self.st.lock().unwrap();
        let tag = st.tag.clone();
        if st.unavailable.contains(&name) {
            st.fault_fired += 1;
            st.log.push(ImportEvent {
                tag,
                module: name,
                found: false,
            });
            return None;
        }
        if let Some(code) = st.synthetic.get(&name).cloned() {
            st.log.push(ImportEvent {
                tag,
                module: name.clone(),
                found: true,
            });
            return Some((code, None));
        }
        if !st.cache.contains_key(&name) {
            let mut p = self.root.clone();
            for part in &path.0 {
                p = p.join(part.as_str());
            }
            p.set_extension("nbt");
            let v = std::fs::read_to_string(&p).ok().map(|c| (c, p));
            st.cache.insert(name.clone(), v);
        }
        let r = st.cache.get(&name).unwrap().clone();
        st.log.push(ImportEvent {
            tag,
            module: name,
            found: r.is_some(),
        });
        r.map(|(c, p)| (c, Some(p)))
    }

    fn list_modules(&self) -> Vec<ModulePath> {
        let mut fs = numbat::module_importer::FileSystemImporter::default();
        fs.add_path(&self.root);
        let mut v = fs.list_modules();
        v.sort();
        v
    }
}

#[derive(Clone, Debug, PartialEq, Eq)]
pub enum OutKind {
    /// value text (with type annotation) if the input produced a value, and the echoed typed statements
    Ok {
        value: Option<String>,
        stmts: Vec<String>,
        /// the last statement of the input is an expression statement
        last_is_expr: bool,
    },
    Err {
        stage: &'static str,
        msg: String,
    },
    Panic(String),
}

#[derive(Clone, Debug, PartialEq, Eq)]
pub struct Outcome {
    pub kind: OutKind,
    pub prints: Vec<String>,
    /// number of syntax errors the library reported for this input (0 unless it failed to parse)
    pub parse_errors: usize,
}

impl Outcome {
    pub fn is_ok(&self) -> bool {
        matches!(self.kind, OutKind::Ok { .. })
    }
    pub fn is_panic(&self) -> bool {
        matches!(self.kind, OutKind::Panic(_))
    }
    pub fn stage(&self) -> &'static str {
        match &self.kind {
            OutKind::Ok { .. } => "ok",
            OutKind::Err { stage, .. } => stage,
            OutKind::Panic(_) => "panic",
        }
    }
    /// Comparable text without the printed output.
    pub fn result_text(&self) -> String {
        match &self.kind {
            OutKind::Ok { value, stmts, .. } => format!(
                "Ok(value={}; stmts={})",
                value.as_deref().unwrap_or("-"),
                stmts.join(" ⏎ ")
            ),
            OutKind::Err { stage, msg } => format!("Err[{stage}]({msg})"),
            OutKind::Panic(m) => format!("PANIC({m})"),
        }
    }
    pub fn full_text(&self) -> String {
        format!("{} prints={:?}", self.result_text(), self.prints)
    }
}

thread_local! {
    static LAST_PANIC: std::cell::RefCell<String> = const { std::cell::RefCell::new(String::new()) };
    pub static VM_STEPS_TOTAL: std::cell::Cell<u64> = const { std::cell::Cell::new(0) };
    pub static INPUTS_TOTAL: std::cell::Cell<u64> = const { std::cell::Cell::new(0) };
}

pub fn install_panic_hook() {
    std::panic::set_hook(Box::new(|info| {
        let loc = info
            .location()
            .map(|l| format!("{}:{}", l.file(), l.line()))
            .unwrap_or_default();
        let msg = if let Some(s) = info.payload().downcast_ref::<&str>() {
            s.to_string()
        } else if let Some(s) = info.payload().downcast_ref::<String>() {
            s.clone()
        } else {
            "<non-string panic>".to_string()
        };
        // strip the absolute prefix so that traces compare across checkouts
        let loc = loc.replace(&format!("{}/", repo_root()), "").replace("/repo/", "");
        LAST_PANIC.with(|p| *p.borrow_mut() = format!("{msg} @ {loc}"));
        if std::env::var_os("NBSIM_SHOW_PANICS").is_some() {
            eprintln!("[panic] {msg} @ {loc}");
        }
    }));
}

pub fn take_panic() -> String {
    LAST_PANIC.with(|p| std::mem::take(&mut *p.borrow_mut()))
}

/// The VM hook (step counter, budget, armed fault) belongs to `interpret_outcome`. Anything else
/// that makes numbat execute code on this thread (REPL commands such as `help`, which evaluates
/// its examples; `info`, which evaluates the identifier on a copy) must find the hook idle, or
/// the steps of the previous input would count against it.
pub fn hook_idle() {
    numbat::verif::reset();
    numbat::verif::disarm();
    numbat::verif::set_budget(None);
}

/// Run `f`, trapping panics.
pub fn trap<T>(f: impl FnOnce() -> T) -> Result<T, String> {
    match catch_unwind(AssertUnwindSafe(f)) {
        Ok(v) => Ok(v),
        Err(_) => Err(take_panic()),
    }
}

#[derive(Clone)]
pub struct Sess {
    pub ctx: Context,
}

pub fn classify(err: &NumbatError) -> (&'static str, String) {
    match err {
        NumbatError::ResolverError(ResolverError::UnknownModule(..)) => {
            ("resolve", err.to_string())
        }
        NumbatError::ResolverError(ResolverError::ParseErrors(..)) => ("parse", err.to_string()),
        NumbatError::NameResolutionError(_) => ("name", err.to_string()),
        NumbatError::TypeCheckError(_) => ("type", err.to_string()),
        NumbatError::RuntimeError(_) => ("runtime", err.to_string()),
    }
}

/// Interpret one input on `ctx` and turn everything observable into an `Outcome`.
pub fn interpret_outcome(
    ctx: &mut Context,
    text: &str,
    vm_fault: Option<u64>,
    source: CodeSource,
) -> Outcome {
    let prints: Arc<Mutex<Vec<String>>> = Arc::new(Mutex::new(vec![]));
    let prints_c = prints.clone();
    let mut settings = InterpreterSettings {
        print_fn: Box::new(move |m: &Markup| {
            prints_c.lock().unwrap().push(m.to_string());
        }),
    };
    numbat::verif::reset();
    numbat::verif::set_budget(Some(STEP_BUDGET));
    if let Some(n) = vm_fault {
        numbat::verif::arm(n);
    }
    let mut n_parse_errors = 0usize;
    let r = trap(|| {
        match ctx.interpret_with_settings(&mut settings, text, source) {
            Ok((stmts, result)) => {
                let value = if result.is_value() {
                    Some(
                        result
                            .to_markup(
                                stmts.last(),
                                ctx.dimension_registry(),
                                true,
                                true,
                                &FormatOptions::default(),
                            )
                            .to_string()
                            .trim()
                            .to_string(),
                    )
                } else {
                    None
                };
                let last_is_expr = stmts
                    .last()
                    .map(|s| s.as_expression().is_some())
                    .unwrap_or(false);
                let stmts = stmts
                    .iter()
                    .map(|s| s.pretty_print().to_string())
                    .collect();
                OutKind::Ok {
                    value,
                    stmts,
                    last_is_expr,
                }
            }
            Err(e) => {
                let (stage, msg) = classify(&e);
                if let NumbatError::ResolverError(ResolverError::ParseErrors(v)) = &*e {
                    n_parse_errors = v.len();
                }
                OutKind::Err { stage, msg }
            }
        }
    });
    numbat::verif::disarm();
    let steps = numbat::verif::steps();
    VM_STEPS_TOTAL.with(|c| c.set(c.get() + steps));
    INPUTS_TOTAL.with(|c| c.set(c.get() + 1));
    drop(settings);
    let prints = std::mem::take(&mut *prints.lock().unwrap());
    let kind = match r {
        Ok(k) => k,
        Err(p) => OutKind::Panic(p),
    };
    Outcome {
        kind,
        prints,
        parse_errors: n_parse_errors,
    }
}

impl Sess {
    pub fn new(importer: SimImporter) -> Self {
        Sess {
            ctx: Context::new(importer),
        }
    }

    /// A session over one of numbat's own importers (C17's real-importer sub-batch).
    pub fn with_importer(importer: impl ModuleImporter + 'static) -> Self {
        Sess {
            ctx: Context::new(importer),
        }
    }

    pub fn submit(&mut self, text: &str) -> Outcome {
        self.submit_with(text, None, CodeSource::Text)
    }

    /// Submit one input. `vm_fault`: raise a run-time error at the n-th VM instruction of this input.
    pub fn submit_with(
        &mut self,
        text: &str,
        vm_fault: Option<u64>,
        source: CodeSource,
    ) -> Outcome {
        interpret_outcome(&mut self.ctx, text, vm_fault, source)
    }

    /// Number of VM instructions the input would execute (dry run on a clone).
    pub fn dry_run_steps(&self, text: &str) -> (u64, bool) {
        let mut c = self.clone();
        let o = c.submit(text);
        (numbat::verif::steps(), o.is_ok())
    }

    pub fn names(&self) -> NameSets {
        let ctx = &self.ctx;
        let mut variables: Vec<String> = ctx.variable_names().map(|s| s.to_string()).collect();
        variables.sort();
        let mut functions: Vec<String> = ctx.function_names().map(|s| s.to_string()).collect();
        functions.sort();
        let mut units: Vec<String> = ctx
            .unit_names()
            .iter()
            .map(|v| v.iter().map(|s| s.as_str()).collect::<Vec<_>>().join("|"))
            .collect();
        units.sort();
        let mut dimensions: Vec<String> =
            ctx.dimension_names().iter().map(|s| s.to_string()).collect();
        dimensions.sort();
        NameSets {
            variables,
            functions,
            units,
            dimensions,
        }
    }
}

#[derive(Clone, Debug, PartialEq, Eq)]
pub struct NameSets {
    pub variables: Vec<String>,
    pub functions: Vec<String>,
    pub units: Vec<String>,
    pub dimensions: Vec<String>,
}

impl NameSets {
    pub fn diff(&self, other: &NameSets) -> Option<String> {
        fn d(kind: &str, a: &[String], b: &[String]) -> Option<String> {
            if a == b {
                return None;
            }
            let sa: BTreeSet<_> = a.iter().collect();
            let sb: BTreeSet<_> = b.iter().collect();
            let only_a: Vec<_> = sa.difference(&sb).take(5).collect();
            let only_b: Vec<_> = sb.difference(&sa).take(5).collect();
            Some(format!(
                "{kind} names differ: only-left={only_a:?} only-right={only_b:?} (multiset sizes {} vs {})",
                a.len(),
                b.len()
            ))
        }
        d("variable", &self.variables, &other.variables)
            .or_else(|| d("function", &self.functions, &other.functions))
            .or_else(|| d("unit", &self.units, &other.units))
            .or_else(|| d("dimension", &self.dimensions, &other.dimensions))
    }

    pub fn contains(&self, name: &str) -> bool {
        self.variables.iter().any(|v| v == name)
            || self.functions.iter().any(|v| v == name)
            || self.dimensions.iter().any(|v| v == name)
            || self.units.iter().any(|u| u.split('|').any(|x| x == name))
    }

    pub fn hash(&self) -> u64 {
        let mut f = crate::rng::Fnv::default();
        for s in self
            .variables
            .iter()
            .chain(std::iter::once(&"#".to_string()))
            .chain(self.functions.iter())
            .chain(std::iter::once(&"#".to_string()))
            .chain(self.units.iter())
            .chain(std::iter::once(&"#".to_string()))
            .chain(self.dimensions.iter())
        {
            f.write_str(s);
        }
        f.0
    }
}
