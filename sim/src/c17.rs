//! C17 — standard-library modules compose in any order.
//!
//! Imports are treated as deliveries of commutative, idempotent operations: a run picks a set
//! of real standard-library modules, an order, a duplication pattern and a batching (one `use`
//! per input, several per input, or nested through synthetic wrapper modules), delivers them to
//! a fresh session and compares with the canonical delivery (sorted, one by one, no duplicates)
//! of the same set.

use std::collections::{BTreeMap, BTreeSet};

use serde_json::{Value, json};

use crate::engine::{ExecResult, Prop, Tier};
use crate::oracle::first_difference;
use crate::rng::{Fnv, Rng};
use crate::sess::{OutKind, Sess, SimImporter, trap};

pub struct C17Worker {
    importer: SimImporter,
    modules: Vec<String>,
    /// canonical digest per module set
    canon: BTreeMap<Vec<String>, (Vec<String>, BTreeSet<String>)>,
}

pub fn list_real_modules(importer: &SimImporter) -> Vec<String> {
    use numbat::module_importer::ModuleImporter;
    let mut v: Vec<String> = importer
        .list_modules()
        .into_iter()
        .map(|m| m.to_string())
        .collect();
    v.sort();
    v.dedup();
    v
}

/// Everything observable about a session that the property speaks about: names, types and
/// values of constants, function signatures, unit definitions, dimension definitions.
pub fn full_digest(sess: &Sess) -> Vec<String> {
    let mut out = vec![];
    let names = sess.names();
    out.push(format!("variables: {}", names.variables.join(",")));
    out.push(format!("functions: {}", names.functions.join(",")));
    out.push(format!("units: {}", names.units.join(",")));
    out.push(format!("dimensions: {}", names.dimensions.join(",")));
    // constants: value and type
    let mut vars: Vec<String> = names.variables.clone();
    vars.dedup();
    let mut c = sess.clone();
    if !vars.is_empty() {
        let batch: Vec<String> = vars
            .iter()
            .flat_map(|v| [format!("print({v})"), format!("type({v})")])
            .collect();
        let o = c.submit(&batch.join("\n"));
        if o.is_ok() && o.prints.len() == 2 * vars.len() {
            for (i, v) in vars.iter().enumerate() {
                out.push(format!("const {v}: {} :: {}", o.prints[2 * i], o.prints[2 * i + 1]));
            }
        } else {
            for v in &vars {
                let mut c2 = sess.clone();
                let o = c2.submit(&format!("print({v})\ntype({v})"));
                match &o.kind {
                    OutKind::Ok { .. } => out.push(format!("const {v}: {}", o.prints.join(" :: "))),
                    _ => out.push(format!("const {v}: {}", o.result_text())),
                }
            }
        }
    }
    // function signatures
    let r = trap(|| {
        let mut f: Vec<String> = sess
            .ctx
            .functions()
            .map(|fi| {
                format!(
                    "fn {}: {} name={:?} desc={:?} url={:?} examples={:?}",
                    fi.fn_name, fi.signature_str, fi.name, fi.description, fi.url, fi.examples
                )
            })
            .collect();
        f.sort();
        f
    });
    match r {
        Ok(f) => out.extend(f),
        Err(p) => out.push(format!("functions: PANIC {p}")),
    }
    // units: the complete `info` text — defining expression and the rendered type ("A unit of: X
    // or Y"). The rendered type lists the dimension names known when the unit was defined; on
    // the unchanged tree it is the same for every ordered pair of modules and every sampled
    // subset (measured), so a difference is reported (seeded change S17e).
    let mut units: Vec<String> = names
        .units
        .iter()
        .filter_map(|u| u.split('|').next().map(|s| s.to_string()))
        .collect();
    units.sort();
    for u in &units {
        let ctx = &mut c.ctx;
        crate::sess::hook_idle();
        let r = trap(|| ctx.print_info_for_keyword(u).to_string());
        match r {
            Ok(s) => {
                let kept: Vec<&str> = s
                    .lines()
                    .map(|l| l.trim())
                    .filter(|l| !l.is_empty())
                    .collect();
                out.push(format!("unit {u}: {}", kept.join(" ⏎ ")));
            }
            Err(p) => out.push(format!("unit {u}: PANIC {p}")),
        }
    }
    let r = trap(|| {
        let mut v: Vec<String> = sess
            .ctx
            .unit_representations()
            .map(|(n, (b, md))| {
                let mut al: Vec<String> = md.aliases.iter().map(|(a, _)| a.to_string()).collect();
                al.sort();
                format!(
                    "unitrep {n}: {b} aliases={} metric={} binary={} name={:?} canonical={:?} url={:?} abbrev={}",
                    al.join("|"),
                    md.metric_prefixes,
                    md.binary_prefixes,
                    md.name,
                    md.canonical_name,
                    md.url,
                    md.is_abbreviation
                )
            })
            .collect();
        v.sort();
        v
    });
    match r {
        Ok(v) => out.extend(v),
        Err(p) => out.push(format!("unitreps: PANIC {p}")),
    }
    // dimensions: base representation
    let r = trap(|| {
        let reg = sess.ctx.dimension_registry();
        let mut v: Vec<String> = names
            .dimensions
            .iter()
            .map(|d| match reg.get_base_representation_for_name(d) {
                Ok(b) => format!("dimension {d}: {b}"),
                Err(e) => format!("dimension {d}: ERROR {e}"),
            })
            .collect();
        v.sort();
        v
    });
    match r {
        Ok(v) => out.extend(v),
        Err(p) => out.push(format!("dimensions: PANIC {p}")),
    }
    out
}

fn uses_in(text: &str) -> Vec<String> {
    crate::oracle::modules_in(text)
}

impl C17Worker {
    /// `overrides`: modules whose source is replaced (a user directory in front of the stock
    /// modules); the instrumented importer serves them before the real files.
    fn canonical(
        &mut self,
        set: &[String],
        overrides: &[(String, String)],
    ) -> Result<(Vec<String>, BTreeSet<String>), String> {
        let mut key: Vec<String> = set.to_vec();
        for (m, _) in overrides {
            key.push(format!("|override:{m}"));
        }
        let set_key = &key;
        if let Some(c) = self.canon.get(set_key) {
            return Ok(c.clone());
        }
        self.importer.reset_run();
        for (m, src) in overrides {
            self.importer.add_module(m, src);
        }
        self.importer.set_tag("canon");
        // The canonical delivery runs on a thread of its own that lives for this one delivery:
        // per-thread state of the system under test (a `thread_local!` memo, say) filled by earlier
        // runs of this worker cannot reach the reference, so a delivery that depends on such state
        // differs from it. Only plain data (digest lines) crosses the thread boundary.
        fn deliver(imp: SimImporter, set: &[String]) -> Result<Vec<String>, String> {
            let mut s = Sess::new(imp);
            for m in set {
                let o = s.submit(&format!("use {m}"));
                if !o.is_ok() {
                    return Err(format!("canonical delivery: `use {m}` failed: {}", o.result_text()));
                }
            }
            Ok(full_digest(&s))
        }
        let imp = self.importer.clone();
        let imp2 = self.importer.clone();
        let d: Vec<String> = std::thread::scope(|sc| {
            match std::thread::Builder::new()
                .stack_size(16 << 20)
                .spawn_scoped(sc, move || deliver(imp, set))
            {
                Ok(h) => match h.join() {
                    Ok(r) => r,
                    Err(_) => Err("canonical delivery panicked outside the trap".to_string()),
                },
                // no thread to be had: same-thread reference, as before (weaker, never wrong)
                Err(_) => deliver(imp2, set),
            }
        })?;
        let fetched: BTreeSet<String> = self
            .importer
            .log_since(0)
            .into_iter()
            .filter(|e| e.found)
            .map(|e| e.module)
            .collect();
        if self.canon.len() > 300 {
            self.canon.clear();
        }
        self.canon.insert(key, (d.clone(), fetched.clone()));
        Ok((d, fetched))
    }
}

pub fn exec_trace(w: &mut C17Worker, trace: &Value, res: &mut ExecResult) {
    if trace["kind"].as_str() == Some("module-list") {
        // the embedded importer and the file-system importer must offer the same modules
        use numbat::module_importer::ModuleImporter;
        let mut a: Vec<String> = numbat::module_importer::BuiltinModuleImporter::default()
            .list_modules()
            .into_iter()
            .map(|m| m.to_string())
            .collect();
        a.sort();
        let b = w.modules.clone();
        res.bump("checks.module_list");
        if a != b {
            let sa: BTreeSet<&String> = a.iter().collect();
            let sb: BTreeSet<&String> = b.iter().collect();
            res.fail(
                "module-list",
                format!(
                    "embedded modules and module files differ: only embedded {:?}, only on disk {:?}",
                    sa.difference(&sb).take(5).collect::<Vec<_>>(),
                    sb.difference(&sa).take(5).collect::<Vec<_>>()
                ),
            );
        }
        res.fingerprint = crate::rng::fnv_str(&a.join(","));
        res.nontrivial = true;
        return;
    }
    let empty = vec![];
    let inputs: Vec<String> = trace["deliveries"]
        .as_array()
        .unwrap_or(&empty)
        .iter()
        .filter_map(|x| x.as_str().map(|s| s.to_string()))
        .collect();
    let synthetic: BTreeMap<String, String> = trace["synthetic"]
        .as_object()
        .map(|o| {
            o.iter()
                .map(|(k, v)| (k.clone(), v.as_str().unwrap_or("").to_string()))
                .collect()
        })
        .unwrap_or_default();
    // the set of real modules delivered (directly or through wrappers)
    let mut set: BTreeSet<String> = BTreeSet::new();
    let mut todo: Vec<String> = inputs.iter().flat_map(|t| uses_in(t)).collect();
    let mut seen_wrappers: BTreeSet<String> = BTreeSet::new();
    while let Some(m) = todo.pop() {
        if m.starts_with("sim::") {
            if seen_wrappers.insert(m.clone())
                && let Some(src) = synthetic.get(&m)
            {
                todo.extend(uses_in(src));
            }
        } else {
            set.insert(m);
        }
    }
    let set: Vec<String> = set.into_iter().collect();
    // "fs2": a user directory with MODIFIED copies of some modules in front of the stock modules
    // (two roots of one FileSystemImporter): precedence must not depend on what was imported before
    let mut overrides: Vec<(String, String)> = vec![];
    if trace["importer"].as_str() == Some("fs2") {
        let empty = vec![];
        for m in trace["overlay"].as_array().unwrap_or(&empty).iter().filter_map(|x| x.as_str()) {
            let src = format!("{}/{}.nbt", crate::sess::modules_dir(), m.replace("::", "/"));
            match std::fs::read_to_string(&src) {
                Ok(t) => {
                    if !overrides.iter().any(|(n, _)| n == m) {
                        overrides.push((m.to_string(), format!("{t}\nlet ovl_{} = 1\n", m.replace("::", "_"))));
                    }
                }
                Err(_) => {
                    res.harness_error = Some(format!("cannot read {src}"));
                    return;
                }
            }
        }
    }
    let canon = match w.canonical(&set, &overrides) {
        Ok(c) => c,
        Err(e) => {
            // the canonical delivery itself failing is a violation of "every import succeeds"
            res.fail("import-failed", e);
            return;
        }
    };
    w.importer.reset_run();
    for (k, v) in &synthetic {
        w.importer.add_module(k, v);
    }
    w.importer.set_tag("run");
    // which importer serves the delivery run: the instrumented one, or numbat's own importers
    // (embedded modules, file system, or a user directory holding SOME modules chained before
    // the embedded ones — what the CLI builds); the reference is always the canonical delivery
    // through the instrumented importer
    let imp_kind = trace["importer"].as_str().unwrap_or("sim");
    let use_log = imp_kind == "sim";
    let mut s = match imp_kind {
        "builtin" => Sess::with_importer(numbat::module_importer::BuiltinModuleImporter::default()),
        "fs" => {
            let mut fs = numbat::module_importer::FileSystemImporter::default();
            fs.add_path(crate::sess::modules_dir());
            Sess::with_importer(fs)
        }
        "fs2" => {
            let dir = overlay_dir();
            let _ = std::fs::remove_dir_all(&dir);
            let _ = std::fs::create_dir_all(&dir);
            for (m, src) in &overrides {
                let dst = dir.join(format!("{}.nbt", m.replace("::", "/")));
                if let Some(p) = dst.parent() {
                    let _ = std::fs::create_dir_all(p);
                }
                if std::fs::write(&dst, src).is_err() {
                    res.harness_error = Some("cannot write the overlay directory".into());
                    return;
                }
            }
            let mut fs = numbat::module_importer::FileSystemImporter::default();
            fs.add_path(&dir);
            fs.add_path(crate::sess::modules_dir());
            Sess::with_importer(fs)
        }
        "chained" => {
            let dir = overlay_dir();
            let _ = std::fs::remove_dir_all(&dir);
            let empty = vec![];
            for m in trace["overlay"].as_array().unwrap_or(&empty).iter().filter_map(|x| x.as_str()) {
                let rel = format!("{}.nbt", m.replace("::", "/"));
                let src = format!("{}/{rel}", crate::sess::modules_dir());
                let dst = dir.join(&rel);
                if let Some(p) = dst.parent() {
                    let _ = std::fs::create_dir_all(p);
                }
                if std::fs::copy(&src, &dst).is_err() {
                    res.harness_error = Some(format!("cannot copy {src} into the overlay directory"));
                    return;
                }
            }
            let _ = std::fs::create_dir_all(&dir);
            let mut fs = numbat::module_importer::FileSystemImporter::default();
            fs.add_path(&dir);
            Sess::with_importer(numbat::module_importer::ChainedImporter::new(
                Box::new(fs),
                Box::new(numbat::module_importer::BuiltinModuleImporter::default()),
            ))
        }
        _ => Sess::new(w.importer.clone()),
    };
    res.bump(&format!("importer.{imp_kind}"));
    let mut fp = Fnv::default();
    let mut delivered: BTreeSet<String> = BTreeSet::new();
    let mut dup_seen = false;
    for (k, text) in inputs.iter().enumerate() {
        let mods = uses_in(text);
        let all_dups = !mods.is_empty() && mods.iter().all(|m| delivered.contains(m));
        let before = if all_dups { Some(s.names()) } else { None };
        let log0 = w.importer.log_len();
        let o = s.submit(text);
        fp.write_str(text);
        res.bump("deliveries");
        if let OutKind::Panic(p) = &o.kind {
            res.sut_panics.push(p.clone());
        }
        if !o.is_ok() {
            res.fail(
                "import-failed",
                format!(
                    "delivery {k} `{}` into a session that has imported {:?} failed: {}",
                    text.replace('\n', " ⏎ "),
                    delivered,
                    o.result_text()
                ),
            );
            return;
        }
        if all_dups {
            dup_seen = true;
            res.bump("fault.dup-import");
            let calls = w.importer.log_since(log0);
            if use_log && !calls.is_empty() {
                // not a violation by itself (the property is about the effect of a repeated
                // import, not about file-system traffic); counted for the evidence
                res.bump("probe.duplicate_import_asked_importer");
            }
            if let Some(b) = before
                && let Some(d) = b.diff(&s.names())
            {
                res.fail(
                    "duplicate-import",
                    format!("repeated delivery {k} `{}` changed the session: {d}", text.replace('\n', " ⏎ ")),
                );
                return;
            }
        }
        // coverage: which module was delivered into a session that already had which other one
        for m in &mods {
            for d in delivered.iter().take(12) {
                if d != m && !m.starts_with("sim::") && !d.starts_with("sim::") {
                    res.cell(&format!("{d}>{m}"));
                }
            }
        }
        for m in mods {
            delivered.insert(m);
        }
        res.states.insert(s.names().hash());
    }
    // by-construction effect of an import (independent of numbat): every top-level definition in
    // the source text of a delivered module exists in the session afterwards
    {
        let names = s.names();
        for m in &set {
            let src = overrides
                .iter()
                .find(|(n, _)| n == m)
                .map(|(_, t)| t.clone())
                .or_else(|| std::fs::read_to_string(format!("{}/{}.nbt", crate::sess::modules_dir(), m.replace("::", "/"))).ok());
            let Some(src) = src else { continue };
            res.bump("checks.import_effect");
            for (kw, name) in top_level_definitions(&src) {
                if !names.contains(&name) {
                    res.fail(
                        "import-effect",
                        format!(
                            "after deliveries {:?}: module {m} defines {kw} `{name}` but the session does not list it",
                            inputs
                        ),
                    );
                    return;
                }
            }
        }
    }
    // convergence
    let d = full_digest(&s);
    res.bump("checks.convergence");
    if let Some(diff) = first_difference(&d, &canon.0) {
        res.fail(
            "order-dependence",
            format!(
                "deliveries {:?} vs canonical (sorted, one by one) delivery of {:?}: {diff}",
                inputs, set
            ),
        );
        return;
    }
    let fetched: BTreeSet<String> = w
        .importer
        .log_since(0)
        .into_iter()
        .filter(|e| e.found && !e.module.starts_with("sim::"))
        .map(|e| e.module)
        .collect();
    if use_log && fetched != canon.1 {
        res.fail(
            "import-closure",
            format!(
                "modules fetched {:?} differ from those fetched by the canonical delivery {:?}",
                fetched.symmetric_difference(&canon.1).collect::<Vec<_>>(),
                set
            ),
        );
        return;
    }
    for l in &d {
        fp.write_str(l);
    }
    res.add("modules_fetched", fetched.len() as u64);
    res.fingerprint = fp.0;
    let canonical_order = inputs.len() == set.len()
        && inputs
            .iter()
            .zip(set.iter())
            .all(|(i, m)| i.trim() == format!("use {m}"));
    res.nontrivial = set.len() >= 2 && (!canonical_order || dup_seen);
    res.add("vm_instructions", crate::sess::VM_STEPS_TOTAL.with(|c| c.replace(0)));
    res.add("inputs_including_probes", crate::sess::INPUTS_TOTAL.with(|c| c.replace(0)));
}

/// (keyword, name) of the definitions a module's source text makes at top level: lines that
/// start with let / fn / unit / dimension. Names starting with `_` are private (not listed by
/// the session) and skipped.
fn top_level_definitions(src: &str) -> Vec<(&'static str, String)> {
    let mut out = vec![];
    for line in src.lines() {
        for kw in ["let", "fn", "unit", "dimension"] {
            if let Some(rest) = line.strip_prefix(kw)
                && rest.starts_with(' ')
            {
                let body = rest.trim_start();
                let name: String = body.chars().take_while(|c| c.is_alphanumeric() || *c == '_').collect();
                // only names that were read completely (next character is a delimiter the
                // grammar allows there); anything else is left to the other oracles
                let next = body[name.len()..].chars().next();
                if !matches!(next, None | Some(' ') | Some(':') | Some('=') | Some('(') | Some('<')) {
                    continue;
                }
                if !name.is_empty() && !name.starts_with('_') {
                    out.push((kw, name));
                }
            }
        }
    }
    out
}

fn overlay_dir() -> std::path::PathBuf {
    std::path::PathBuf::from(
        format!(
            "{}/work/c17/{}-{:?}/overlay",
            crate::verif_root(),
            std::process::id(),
            std::thread::current().id()
        )
        .replace(['(', ')'], ""),
    )
}

pub struct C17;

impl C17 {
    fn pair_trace(a: &str, b: &str) -> Value {
        json!({"format": 1, "property": "C17", "kind": "ordered-pair", "deliveries": [format!("use {a}"), format!("use {b}")], "synthetic": {}})
    }
}

impl Prop for C17 {
    type Worker = C17Worker;
    fn id(&self) -> &'static str {
        "C17"
    }
    fn new_worker(&self) -> C17Worker {
        let importer = SimImporter::new();
        let modules = list_real_modules(&importer);
        C17Worker {
            importer,
            modules,
            canon: BTreeMap::new(),
        }
    }
    fn runs(&self, tier: Tier) -> u64 {
        match tier {
            Tier::Quick => 6_000,
            Tier::Thorough => 30_000,
        }
    }
    fn recycle_every(&self) -> u64 {
        500
    }
    fn fixed_traces(&self, tier: Tier) -> Vec<Value> {
        let importer = SimImporter::new();
        let mods = list_real_modules(&importer);
        let mut v = vec![json!({"format": 1, "property": "C17", "kind": "module-list", "deliveries": [], "synthetic": {}})];
        // every module alone (and twice)
        for m in &mods {
            v.push(json!({"format": 1, "property": "C17", "kind": "single", "deliveries": [format!("use {m}"), format!("use {m}")], "synthetic": {}}));
        }
        if tier == Tier::Thorough {
            for a in &mods {
                for b in &mods {
                    if a != b {
                        v.push(Self::pair_trace(a, b));
                    }
                }
            }
        }
        v
    }
    fn run(&self, w: &mut C17Worker, seed: u64, _run: u64, tier: Tier) -> (Value, ExecResult) {
        let mut rng = Rng::new(seed);
        let mods = w.modules.clone();
        let mut deliveries: Vec<String> = vec![];
        let mut synthetic: BTreeMap<String, String> = BTreeMap::new();
        let kind;
        if tier == Tier::Quick && rng.chance(0.7) || tier == Tier::Thorough && rng.chance(0.15) {
            // an ordered pair (sampled in quick, exhaustive through fixed traces in thorough)
            kind = "ordered-pair";
            let a = rng.pick(&mods).clone();
            let mut b = rng.pick(&mods).clone();
            while b == a {
                b = rng.pick(&mods).clone();
            }
            deliveries.push(format!("use {a}"));
            deliveries.push(format!("use {b}"));
            if rng.chance(0.3) {
                deliveries.push(format!("use {a}"));
            }
        } else {
            kind = "subset";
            let n = rng.range(2, 12) as usize;
            let mut set: Vec<String> = vec![];
            while set.len() < n {
                let m = rng.pick(&mods).clone();
                if !set.contains(&m) {
                    set.push(m);
                }
            }
            // duplication pattern: each module delivered 1-3 times, immediately or late
            let mut seq: Vec<String> = vec![];
            for m in &set {
                seq.push(m.clone());
                if rng.chance(0.25) {
                    seq.push(m.clone()); // immediate duplicate
                }
            }
            for m in &set {
                if rng.chance(0.2) {
                    seq.push(m.clone()); // late duplicate
                }
            }
            // order: shuffle, but keep "late" duplicates anywhere
            rng.shuffle(&mut seq);
            // batching
            let mut i = 0;
            let mut wrap_id = 0;
            while i < seq.len() {
                let take = match rng.below(10) {
                    0..=5 => 1,
                    6..=7 => rng.range(2, 4) as usize,
                    _ => rng.range(2, 3) as usize,
                }
                .min(seq.len() - i);
                let chunk = &seq[i..i + take];
                let lines: Vec<String> = chunk.iter().map(|m| format!("use {m}")).collect();
                if take > 1 && rng.chance(0.4) {
                    // nested through a synthetic wrapper module
                    wrap_id += 1;
                    let name = format!("sim::w{wrap_id}");
                    synthetic.insert(name.clone(), lines.join("\n"));
                    deliveries.push(format!("use {name}"));
                } else {
                    deliveries.push(lines.join("\n"));
                }
                i += take;
            }
        }
        let mut trace = json!({"format": 1, "property": "C17", "kind": kind, "deliveries": deliveries, "synthetic": synthetic});
        // 1 run in 5 without wrapper modules goes through numbat's own importers
        if synthetic.is_empty() && rng.chance(0.2) {
            let k = *rng.pick(&["builtin", "fs", "fs2", "fs2", "chained", "chained"]);
            trace["importer"] = json!(k);
            if k == "fs2" {
                // modified copies of 1-3 of the delivered modules (or of modules they import)
                let n = rng.range(1, 3) as usize;
                let delivered: Vec<String> = deliveries.iter().flat_map(|d| uses_in(d)).collect();
                let overlay: Vec<String> = (0..n)
                    .map(|_| {
                        if !delivered.is_empty() && rng.chance(0.8) {
                            rng.pick(&delivered).clone()
                        } else {
                            rng.pick(&mods).clone()
                        }
                    })
                    .collect();
                trace["overlay"] = json!(overlay);
            }
            if k == "chained" {
                // the user directory holds a seeded subset of the real modules (identical copies)
                let n = rng.range(0, 6) as usize;
                let overlay: Vec<String> = (0..n).map(|_| rng.pick(&mods).clone()).collect();
                trace["overlay"] = json!(overlay);
            }
        }
        let res = self.exec(w, &trace);
        (trace, res)
    }
    fn exec(&self, w: &mut C17Worker, trace: &Value) -> ExecResult {
        let mut res = ExecResult::default();
        res.bump(&format!("runs.{}", trace["kind"].as_str().unwrap_or("subset")));
        exec_trace(w, trace, &mut res);
        res
    }
    fn shrink(&self, trace: &Value) -> Vec<Value> {
        let mut out = vec![];
        if let Some(d) = trace["deliveries"].as_array() {
            for i in (0..d.len()).rev() {
                let mut d2 = d.clone();
                d2.remove(i);
                let mut t = trace.clone();
                t["deliveries"] = Value::Array(d2);
                out.push(t);
            }
            // split multi-line deliveries / drop single lines
            for i in 0..d.len() {
                if let Some(text) = d[i].as_str() {
                    let lines: Vec<&str> = text.lines().collect();
                    if lines.len() > 1 {
                        for j in 0..lines.len() {
                            let mut l2 = lines.clone();
                            l2.remove(j);
                            let mut t = trace.clone();
                            t["deliveries"][i] = json!(l2.join("\n"));
                            out.push(t);
                        }
                    }
                }
            }
        }
        // unwrap synthetic wrappers
        if let Some(s) = trace["synthetic"].as_object() {
            for (name, src) in s {
                let mut t = trace.clone();
                if let Some(d) = t["deliveries"].as_array_mut() {
                    for x in d.iter_mut() {
                        if x.as_str() == Some(&format!("use {name}")) {
                            *x = src.clone();
                        }
                    }
                }
                t["synthetic"].as_object_mut().unwrap().remove(name);
                out.push(t);
            }
        }
        out
    }
    fn rule(&self) -> String {
        "The module list is discovered at run time from /repo/numbat/modules. Fixed part: every module alone, \
         delivered twice (quick and thorough); thorough additionally enumerates ALL ordered pairs of distinct \
         modules. Seeded part: ordered pairs with an optional repeat of the first module, and subsets of 2-12 \
         modules in a seeded order with each module delivered 1-3 times (immediate or late duplicates) and seeded \
         batching (one `use` per input, several per input, or nested in a synthetic wrapper module). Every delivery \
         must succeed; a delivery consisting only of already delivered modules must change nothing (names immediately, \
         everything else through the final digest); the final digest (names; value and type of every constant; \
         signature and documentation metadata of every function; complete info text - defining expression and \
         rendered type -, base representation, aliases, prefix flags and naming metadata of every unit; base \
         representation of every dimension) must equal the digest of the canonical delivery (sorted, one by one, once each) of the \
         same set, and the set of files fetched must be the same. 1 delivery run in 5 is served by numbat's own \
         importers (embedded modules, file system, or a user directory with a seeded subset of the modules chained \
         before the embedded ones) instead of the instrumented one; one fixed run compares the embedded module \
         list with the module directory. Non-trivial = at least two modules and a \
         non-canonical order or a duplicate. Distinct = distinct fingerprint over (deliveries, digest)."
            .to_string()
    }
    fn expected_probes(&self) -> Vec<&'static str> {
        vec!["fault.dup-import", "runs.ordered-pair", "runs.subset", "runs.single", "checks.convergence"]
    }
    fn assumptions(&self) -> Vec<String> {
        vec![
            "exchange rates are pinned by numbat's own test stub (all rates 1.0), so units::currencies is deterministic and offline".into(),
            "the list of dimension alias names shown for a unit ('A unit of: X or Y') is not part of the digest: it records which alias names existed when the unit was defined, not the unit's type".into(),
        ]
    }
    fn extra_evidence(&self, tier: Tier) -> Value {
        let importer = SimImporter::new();
        let n = list_real_modules(&importer).len();
        json!({
            "components": {
                "real": ["resolver (inlining, de-duplication), all later stages, every .nbt file under /repo/numbat/modules (read at run time)"],
                "stub": ["module importer (SimImporter: logs every import call, serves synthetic wrapper modules)", "exchange rates (test stub)"]
            },
            "modules_discovered": n,
            "ordered_pairs_total": n * (n - 1),
            "exhaustive_subspace": if tier == Tier::Thorough { "all ordered pairs of distinct modules and all single modules were enumerated (fixed traces)" } else { "all single modules; ordered pairs are sampled in the quick tier" },
            "exhaustive": tier == Tier::Thorough,
            "simulated_time": "logical: deliveries / inputs; no timers in this code",
        })
    }
}
