//! C07 — incremental, batched and replayed sessions agree; a copied session evolves
//! independently.
//!
//! One run = one generated history executed in several modes:
//!   R   scripted REPL (real `CommandRunner` + `SessionHistory`, glue copied from
//!       numbat-cli/src/main.rs) receiving the history interleaved with failing inputs and the
//!       read-only commands help / list / info, with `save` at seeded points (real files, fault
//!       injecting writers, unwritable destinations) and replay of the saved file;
//!   M1  a fresh session receiving only the successful lines, one input per line;
//!   M2  all successful lines joined into one input;
//!   M3  the successful lines cut into chunks at seeded points;
//!   M5  fork: the session is cloned at a seeded point, parent and clone continue with
//!       different suffixes in a seeded interleaving (one of them possibly dropped early) and
//!       are compared with from-scratch sessions.

use std::sync::{Arc, Mutex};

use numbat::Context;
use numbat::command::{CommandControlFlow, CommandRunner};
use numbat::resolver::CodeSource;
use numbat::session_history::{SessionHistory, SessionHistoryOptions};
use serde_json::{Value, json};

use crate::c06::{SessWorker, Step, shrink_steps};
use crate::engine::{ExecResult, Prop, Tier};
use crate::oracle::{ProbeSet, digest, first_difference};
use crate::rng::{Fnv, Rng};
use crate::sess::{OutKind, Outcome, Sess, interpret_outcome, trap};
use crate::workload::{FaultKind, Gen};

// ------------------------------------------------------------------------------------------
// the stubbed component: the REPL loop glue (numbat-cli/src/main.rs repl_loop)

pub struct ReplSim {
    pub ctx: Context,
    runner: CommandRunner<'static, ()>,
    /// same pushes as the runner's private history; used with the `save_to_writer` hook
    mirror: SessionHistory,
    cmd_out: Arc<Mutex<Vec<String>>>,
}

pub enum LineResult {
    Skipped,
    Command {
        output: Vec<String>,
        error: Option<String>,
    },
    Input(Outcome),
}

impl ReplSim {
    pub fn new(ctx: Context) -> Self {
        let cmd_out: Arc<Mutex<Vec<String>>> = Arc::new(Mutex::new(vec![]));
        let c = cmd_out.clone();
        let runner = CommandRunner::<()>::new()
            .print_with(move |m| c.lock().unwrap().push(m.to_string()))
            .enable_save(SessionHistory::default())
            .enable_reset()
            .enable_quit();
        ReplSim {
            ctx,
            runner,
            mirror: SessionHistory::default(),
            cmd_out,
        }
    }

    /// What `repl_loop` does with one line read from the editor.
    pub fn line(&mut self, line: &str, vm_fault: Option<u64>) -> LineResult {
        if line.trim().is_empty() {
            return LineResult::Skipped;
        }
        let runner = &mut self.runner;
        let ctx = &mut self.ctx;
        crate::sess::hook_idle();
        let r = trap(|| runner.try_run_command(line, ctx, &mut ()));
        match r {
            Err(p) => {
                return LineResult::Command {
                    output: vec![],
                    error: Some(format!("PANIC {p}")),
                };
            }
            Ok(Ok(cf)) => match cf {
                CommandControlFlow::Continue
                | CommandControlFlow::Return
                | CommandControlFlow::Reset => {
                    let output = std::mem::take(&mut *self.cmd_out.lock().unwrap());
                    return LineResult::Command {
                        output,
                        error: None,
                    };
                }
                CommandControlFlow::NotACommand => {}
            },
            Ok(Err(e)) => {
                let output = std::mem::take(&mut *self.cmd_out.lock().unwrap());
                return LineResult::Command {
                    output,
                    error: Some(format!("{e:?}")),
                };
            }
        }
        let o = interpret_outcome(&mut self.ctx, line, vm_fault, CodeSource::Text);
        let result = if o.is_ok() { Ok(()) } else { Err(()) };
        self.runner.push_to_history(line, result);
        self.mirror.push(line.into(), result);
        LineResult::Input(o)
    }
}

// ------------------------------------------------------------------------------------------
// fault-injecting writer for `save`

pub struct FaultyWriter {
    pub accepted: Vec<u8>,
    /// fail with an I/O error once this many bytes have been accepted
    pub fail_at_byte: Option<usize>,
    /// accept at most this many bytes per call (short writes)
    pub max_chunk: usize,
    /// every n-th call returns `Interrupted` without accepting anything
    pub interrupt_every: usize,
    calls: usize,
    pub faults_fired: u64,
}

impl FaultyWriter {
    pub fn new(fail_at_byte: Option<usize>, max_chunk: usize, interrupt_every: usize) -> Self {
        FaultyWriter {
            accepted: vec![],
            fail_at_byte,
            max_chunk: max_chunk.max(1),
            interrupt_every,
            calls: 0,
            faults_fired: 0,
        }
    }
}

impl std::io::Write for FaultyWriter {
    fn write(&mut self, buf: &[u8]) -> std::io::Result<usize> {
        self.calls += 1;
        if self.interrupt_every > 0 && self.calls % self.interrupt_every == 0 {
            self.faults_fired += 1;
            return Err(std::io::Error::from(std::io::ErrorKind::Interrupted));
        }
        if let Some(k) = self.fail_at_byte
            && self.accepted.len() >= k
        {
            self.faults_fired += 1;
            return Err(std::io::Error::other("verif: injected write error"));
        }
        let mut n = buf.len().min(self.max_chunk);
        if let Some(k) = self.fail_at_byte {
            n = n.min(k - self.accepted.len()).max(1).min(buf.len());
        }
        if n < buf.len() {
            self.faults_fired += 1;
        }
        self.accepted.extend_from_slice(&buf[..n]);
        Ok(n)
    }
    fn flush(&mut self) -> std::io::Result<()> {
        Ok(())
    }
}

// ------------------------------------------------------------------------------------------
// steps

#[derive(Clone, Debug)]
pub enum Op {
    /// a line typed into the REPL session (phase 1) or an input to the parent/clone (phase 2)
    Line { session: String, step: Step },
    Command { line: String },
    Save { how: String, fail_at_byte: Option<usize>, max_chunk: usize, interrupt_every: usize },
    Fork,
    Drop { session: String },
}

impl Op {
    pub fn to_json(&self) -> Value {
        match self {
            Op::Line { session, step } => {
                let mut v = step.to_json();
                v["op"] = json!("line");
                v["session"] = json!(session);
                v
            }
            Op::Command { line } => json!({"op": "command", "line": line}),
            Op::Save {
                how,
                fail_at_byte,
                max_chunk,
                interrupt_every,
            } => json!({"op": "save", "how": how, "writer": {"fail_at_byte": fail_at_byte, "max_chunk": max_chunk, "interrupt_every": interrupt_every}}),
            Op::Fork => json!({"op": "fork"}),
            Op::Drop { session } => json!({"op": "drop", "session": session}),
        }
    }
    pub fn from_json(v: &Value) -> Option<Op> {
        Some(match v["op"].as_str()? {
            "line" | "input" => Op::Line {
                session: v["session"].as_str().unwrap_or("R").to_string(),
                step: Step::from_json(v),
            },
            "command" => Op::Command {
                line: v["line"].as_str()?.to_string(),
            },
            "save" => Op::Save {
                how: v["how"].as_str().unwrap_or("file").to_string(),
                fail_at_byte: v["writer"]["fail_at_byte"].as_u64().map(|x| x as usize),
                max_chunk: v["writer"]["max_chunk"].as_u64().unwrap_or(1 << 20) as usize,
                interrupt_every: v["writer"]["interrupt_every"].as_u64().unwrap_or(0) as usize,
            },
            "fork" => Op::Fork,
            "drop" => Op::Drop {
                session: v["session"].as_str().unwrap_or("C").to_string(),
            },
            _ => return None,
        })
    }
}

pub trait OpSource {
    fn next(&mut self, known_names: &dyn Fn() -> Vec<String>) -> Option<Op>;
    fn feedback(&mut self, session: &str, ok: bool);
    /// cut points for M3 over a history of n successful lines
    fn cuts(&mut self, n: usize) -> Vec<usize>;
}

pub struct ReplayOps {
    pub ops: Vec<Op>,
    pub i: usize,
    pub cuts: Vec<usize>,
}

impl OpSource for ReplayOps {
    fn next(&mut self, _k: &dyn Fn() -> Vec<String>) -> Option<Op> {
        let o = self.ops.get(self.i).cloned();
        self.i += 1;
        o
    }
    fn feedback(&mut self, _s: &str, _ok: bool) {}
    fn cuts(&mut self, n: usize) -> Vec<usize> {
        self.cuts.iter().copied().filter(|c| *c > 0 && *c < n).collect()
    }
}

pub struct GenOps {
    rng: Rng,
    gen_p: Gen,
    gen_c: Option<Gen>,
    fork_mode: bool,
    remaining_prefix: usize,
    remaining_suffix: usize,
    forked: bool,
    dropped: Option<String>,
    last_session: String,
    decorate: bool,
    after_info: bool,
    /// no `save` operations (the binary cross-check saves once at the end); also no TAB
    /// characters, which a terminal would turn into a completion request
    no_saves: bool,
    /// what the step just generated would define (fork phase: fed to the sibling's generator)
    last_defines: Vec<(String, &'static str)>,
    /// text of the last line each side of a fork submitted successfully ("echo" traffic)
    last_ok_text: std::collections::BTreeMap<String, String>,
    pending_text: String,
}

impl GenOps {
    fn decorate_line(&mut self, text: &str) -> String {
        if !self.decorate {
            return text.to_string();
        }
        let mut t = text.to_string();
        if self.rng.chance(0.3) {
            // indentation of continuation lines of a multi-line input
            t = t.replace('\n', "\n  ");
        }
        if self.rng.chance(0.3) {
            t = format!("{}{t}", *self.rng.pick(&[" ", "  ", "\t", "   "]));
        }
        if self.rng.chance(0.3) {
            t = format!("{t}{}", *self.rng.pick(&[" ", "  ", "\t", " \t "]));
        }
        if self.no_saves {
            t = t.replace('\t', "  ");
        }
        t
    }
}

impl OpSource for GenOps {
    fn next(&mut self, known_names: &dyn Fn() -> Vec<String>) -> Option<Op> {
        if !self.forked {
            if self.remaining_prefix == 0 {
                if self.fork_mode && self.remaining_suffix > 0 {
                    self.forked = true;
                    let mut g = Gen::new(self.rng.fork(), self.gen_p.cfg.clone());
                    g.sym = self.gen_p.sym.clone();
                    g.modules = self.gen_p.modules.clone();
                    // the clone's generator continues with the same name counter, so parent
                    // and clone will define the SAME names differently; only synthetic module
                    // names are kept apart (both sessions share one importer)
                    g.set_id_offset(self.gen_p.next_id_value());
                    g.module_tag = "c".into();
                    g.name_tag = self.gen_p.name_tag.clone();
                    self.gen_c = Some(g);
                    return Some(Op::Fork);
                }
                return None;
            }
            self.remaining_prefix -= 1;
            if !self.fork_mode {
                // REPL traffic: commands and saves between inputs
                let r = self.rng.below(100);
                if r < 10 {
                    let names = known_names();
                    let line = match self.rng.below(8) {
                        0 => "help".to_string(),
                        1 => "list".to_string(),
                        2 => format!("list {}", self.rng.pick(&["functions", "dimensions", "variables", "units"])),
                        3 => "info".to_string(), // argument error
                        4 => "list nonsense".to_string(), // argument error
                        _ if !names.is_empty() => {
                            self.after_info = true;
                            format!("info {}", self.rng.pick(&names))
                        }
                        _ => "info meter".to_string(),
                    };
                    return Some(Op::Command { line });
                }
                if r < 18 && !self.no_saves {
                    let how = *self.rng.pick(&[
                        "file", "file", "file", "writer", "writer", "writer", "devfull", "dir", "noparent",
                    ]);
                    let (fail_at_byte, max_chunk, interrupt_every) = if how == "writer" {
                        (
                            if self.rng.chance(0.6) {
                                Some(self.rng.below(400))
                            } else {
                                None
                            },
                            if self.rng.chance(0.6) {
                                self.rng.range(1, 7) as usize
                            } else {
                                1 << 20
                            },
                            if self.rng.chance(0.4) {
                                self.rng.range(2, 5) as usize
                            } else {
                                0
                            },
                        )
                    } else {
                        (None, 1 << 20, 0)
                    };
                    return Some(Op::Save {
                        how: how.to_string(),
                        fail_at_byte,
                        max_chunk,
                        interrupt_every,
                    });
                }
            }
            let mut gi = self.gen_p.next_input();
            if self.after_info && gi.fault.is_none() && self.rng.chance(0.5) {
                // `info` must be read-only: look at `ans` right after it
                if self.gen_p.sym.ans.is_some() {
                    gi.text = format!("ans\n{}", gi.text);
                    gi.n_statements += 1;
                    gi.features.insert("ans-chain");
                }
            }
            self.after_info = false;
            let mut step = Step::from_gen(&gi);
            if gi.fault == Some(FaultKind::VmFault) {
                // REPL mode keeps failing traffic simple: a plain run-time failure instead
                step.label = "ok".into();
                step.fault_pos = None;
            }
            step.text = self.decorate_line(&step.text);
            self.last_session = "R".into();
            return Some(Op::Line {
                session: "R".into(),
                step,
            });
        }
        // phase 2: parent and clone continue independently
        if self.remaining_suffix == 0 {
            return None;
        }
        self.remaining_suffix -= 1;
        if self.dropped.is_none() && self.rng.chance(0.06) {
            let s = if self.rng.chance(0.5) { "P" } else { "C" };
            self.dropped = Some(s.to_string());
            return Some(Op::Drop {
                session: s.to_string(),
            });
        }
        let who = match &self.dropped {
            Some(d) if d == "P" => "C",
            Some(_) => "P",
            None => {
                if self.rng.chance(0.5) {
                    "P"
                } else {
                    "C"
                }
            }
        };
        let g = if who == "P" {
            &mut self.gen_p
        } else {
            self.gen_c.as_mut().unwrap()
        };
        let mut gi = g.next_input();
        // echo traffic: one side submits the very text the sibling submitted last (same
        // identifiers, same expressions, different session state) — whatever is keyed by
        // identifier or expression and accidentally shared between the copies is hit from both
        let sibling = if who == "P" { "C" } else { "P" };
        if self.dropped.is_none()
            && self.rng.chance(0.15)
            && let Some(t) = self.last_ok_text.get(sibling)
            && !t.contains("use sim::")
        {
            gi.text = t.clone();
            gi.fault = None;
            gi.fault_pos = None;
            gi.unavailable.clear();
            gi.set_modules.clear();
            gi.features.insert("echo");
        }
        let step = Step::from_gen(&gi);
        self.pending_text = gi.text.clone();
        self.last_session = who.to_string();
        self.last_defines = gi.defines.clone();
        Some(Op::Line {
            session: who.to_string(),
            step,
        })
    }

    fn feedback(&mut self, session: &str, ok: bool) {
        match session {
            "C" => {
                if let Some(g) = self.gen_c.as_mut() {
                    g.feedback(ok)
                }
            }
            _ => self.gen_p.feedback(ok),
        }
        if self.forked && ok && (session == "P" || session == "C") {
            self.last_ok_text.insert(session.to_string(), std::mem::take(&mut self.pending_text));
        }
        if self.forked && ok && self.dropped.is_none() {
            // collisions: the sibling session is made to define the SAME names, differently
            // (a copied session must not see, or be influenced by, its sibling's definitions)
            let mut defs = std::mem::take(&mut self.last_defines);
            // structs are in no name list (not part of `defines`): taken from the text
            if let Some(t) = self.last_ok_text.get(session) {
                for line in t.lines() {
                    if let Some(rest) = line.strip_prefix("struct ")
                        && let Some(name) = rest.split_whitespace().next()
                        && name.starts_with("Sq")
                    {
                        defs.push((name.to_string(), "struct"));
                    }
                }
            }
            let other = if session == "C" {
                Some(&mut self.gen_p)
            } else {
                self.gen_c.as_mut()
            };
            let mut own: Vec<(String, &'static str)> = vec![];
            if let Some(o) = other {
                for d in defs {
                    if d.1 == "unit" {
                        // identifiers DERIVED from the sibling's definition (prefix + unit name or
                        // alias) are ordinary free names on this side: define them as variables,
                        // while the sibling goes on using them as prefixed units (seeded S07f)
                        let derived = if self.rng.chance(0.5) { format!("kilo{}", d.0) } else { format!("m{}", d.0) };
                        o.recent_failed.push((derived, "variable"));
                        own.push(d.clone());
                    }
                    o.recent_failed.push(d);
                }
                if o.recent_failed.len() > 12 {
                    let cut = o.recent_failed.len() - 12;
                    o.recent_failed.drain(..cut);
                }
            }
            // the defining side keeps using what it defined (also in prefixed spellings)
            let me = if session == "C" { self.gen_c.as_mut() } else { Some(&mut self.gen_p) };
            if let Some(g) = me {
                for d in own {
                    if self.rng.chance(0.6) {
                        g.recent_failed.push(d);
                    }
                }
            }
        }
    }

    fn cuts(&mut self, n: usize) -> Vec<usize> {
        if n < 2 {
            return vec![];
        }
        let k = self.rng.range(1, 4.min(n as i64 - 1)) as usize;
        let mut cuts: Vec<usize> = (0..k).map(|_| 1 + self.rng.below(n - 1)).collect();
        cuts.sort();
        cuts.dedup();
        cuts
    }
}

// ------------------------------------------------------------------------------------------
// execution

struct Elem {
    text: String,
    out: Outcome,
    features: Vec<String>,
}

fn ok_parts(o: &Outcome) -> (Option<String>, Vec<String>, bool) {
    match &o.kind {
        OutKind::Ok {
            value,
            stmts,
            last_is_expr,
        } => (value.clone(), stmts.clone(), *last_is_expr),
        _ => (None, vec![], false),
    }
}

/// Feed `elems[range]` joined as one input and compare with the per-element outcomes.
fn check_joined(
    sess: &mut Sess,
    elems: &[Elem],
    what: &str,
    source: CodeSource,
    trim: bool,
    res: &mut ExecResult,
) -> bool {
    if elems.is_empty() {
        return true;
    }
    let text = elems
        .iter()
        .map(|e| if trim { e.text.trim() } else { e.text.as_str() })
        .collect::<Vec<_>>()
        .join("\n");
    let o = sess.submit_with(&text, None, source);
    let want_prints: Vec<String> = elems.iter().flat_map(|e| e.out.prints.clone()).collect();
    let want_stmts: Vec<String> = elems
        .iter()
        .flat_map(|e| ok_parts(&e.out).1)
        .collect();
    if let OutKind::Panic(p) = &o.kind {
        res.sut_panics.push(p.clone());
    }
    if !o.is_ok() {
        res.fail(
            "mode-diverged",
            format!(
                "{what}: {} lines that each succeeded one at a time fail when submitted together: {} — input: `{}`",
                elems.len(),
                o.result_text(),
                text.replace('\n', " ⏎ ")
            ),
        );
        return false;
    }
    let (value, stmts, _) = ok_parts(&o);
    if o.prints != want_prints {
        let d = first_difference(&o.prints, &want_prints).unwrap_or_default();
        res.fail(
            "mode-diverged",
            format!(
                "{what}: printed output differs from line-by-line evaluation: {d} — input: `{}`",
                text.replace('\n', " ⏎ ")
            ),
        );
        return false;
    }
    if stmts != want_stmts {
        let d = first_difference(&stmts, &want_stmts).unwrap_or_default();
        res.fail(
            "mode-diverged",
            format!(
                "{what}: typed statements differ from line-by-line evaluation: {d} — input: `{}`",
                text.replace('\n', " ⏎ ")
            ),
        );
        return false;
    }
    let last = elems.last().unwrap();
    let (lv, _, l_is_expr) = ok_parts(&last.out);
    if l_is_expr && value != lv {
        res.fail(
            "mode-diverged",
            format!(
                "{what}: result {value:?} differs from the result {lv:?} of the last line evaluated on its own — input: `{}`",
                text.replace('\n', " ⏎ ")
            ),
        );
        return false;
    }
    true
}

/// What the property needs from a saved history: replaying it must reproduce the session. The
/// file format itself (exact white space, comment lines) is not part of the property, so the
/// structural check only requires that the non-empty, non-comment lines of the file are the
/// successful lines in order (each compared after trimming).
fn saved_lines_match(content: &str, hist: &[Elem]) -> Result<(), String> {
    let got: Vec<&str> = content
        .lines()
        .map(|l| l.trim())
        .filter(|l| !l.is_empty() && !l.starts_with('#'))
        .collect();
    let want: Vec<&str> = hist
        .iter()
        .flat_map(|e| e.text.lines())
        .map(|l| l.trim())
        .filter(|l| !l.is_empty() && !l.starts_with('#'))
        .collect();
    if got == want {
        Ok(())
    } else {
        let k = got.iter().zip(want.iter()).position(|(a, b)| a != b).unwrap_or(got.len().min(want.len()));
        Err(format!(
            "line {k}: file has {:?}, the successful lines have {:?} ({} vs {} lines)",
            got.get(k),
            want.get(k),
            got.len(),
            want.len()
        ))
    }
}

fn work_dir() -> String {
    let d = format!(
        "{}/work/c07/{}-{:?}",
        crate::verif_root(),
        std::process::id(),
        std::thread::current().id()
    )
    .replace(['(', ')'], "");
    let _ = std::fs::create_dir_all(&d);
    d
}

pub fn exec_ops(w: &mut SessWorker, light: bool, fork_run: bool, src: &mut dyn OpSource, res: &mut ExecResult) -> (Vec<Op>, Vec<usize>) {
    // Fork runs test that a copied session is independent of its original: the pair under test
    // and each of its two references come from three independently built base contexts.
    let base = match if fork_run { let _ = w.base(light); w.scratch_base(0, light) } else { w.base(light) } {
        Ok(b) => b,
        Err(e) => {
            res.harness_error = Some(e);
            return (vec![], vec![]);
        }
    };
    let importer = w.importer.clone();
    let mut executed: Vec<Op> = vec![];
    let mut fp = Fnv::default();
    let mut probes = ProbeSet::default();
    let mut ans_defined = false;
    let dir = work_dir();

    let mut repl = ReplSim::new(base.ctx.clone());
    // successful lines so far (the history H), with their REPL outcomes
    let mut hist: Vec<Elem> = vec![];
    let mut n_failed_lines = 0u64;
    let mut n_commands = 0u64;
    let mut save_seq = 0u32;
    let mut pending_failed_save = false;

    // phase 2 state
    let mut forked = false;
    let mut p_sess: Option<Sess> = None;
    let mut c_sess: Option<Sess> = None;
    let mut p_suffix: Vec<Elem> = vec![];
    let mut c_suffix: Vec<Elem> = vec![];
    let mut p_final: Option<Sess> = None;
    let mut c_final: Option<Sess> = None;
    let mut panic_abort = false;

    loop {
        let names_fn = || -> Vec<String> {
            probes
                .names
                .iter()
                .filter(|n| n.len() > 2)
                .cloned()
                .collect()
        };
        let Some(op) = src.next(&names_fn) else { break };
        executed.push(op.clone());
        res.bump("ops");
        match &op {
            Op::Line { session, step } => {
                for (n, srcm) in &step.set_modules {
                    importer.add_module(n, srcm);
                }
                importer.set_unavailable(&step.unavailable);
                probes.note_input(&step.text);
                for p in &step.probes {
                    if !probes.exprs.contains(p) {
                        probes.exprs.push(p.clone());
                    }
                }
                fp.write_str(&step.text);
                let out = if !forked {
                    match repl.line(&step.text, step.vm_fault_at) {
                        LineResult::Input(o) => o,
                        LineResult::Skipped => {
                            src.feedback(session, false);
                            continue;
                        }
                        LineResult::Command { output, error } => {
                            // a generated input that the REPL took for a command: harness bug
                            res.harness_error = Some(format!(
                                "generated input `{}` was executed as a command ({output:?}, {error:?})",
                                step.text
                            ));
                            break;
                        }
                    }
                } else {
                    let s = if session == "C" { c_sess.as_mut() } else { p_sess.as_mut() };
                    let Some(s) = s else {
                        src.feedback(session, false);
                        continue;
                    };
                    s.submit_with(&step.text, step.vm_fault_at, CodeSource::Text)
                };
                importer.set_unavailable(&[]);
                fp.write_str(&out.full_text());
                res.bump("inputs");
                res.bump(&format!("stage.{}", out.stage()));
                src.feedback(session, out.is_ok());
                if let OutKind::Panic(p) = &out.kind {
                    res.sut_panics.push(p.clone());
                    // A panicked context must not be used any more, so the run ends here. Crash
                    // freedom as such is not C07's subject (C08); what C07 asks is whether the
                    // modes agree: replay the successful lines so far plus this line in a
                    // fresh session fed line by line. If it panics there too, the panic is a
                    // property of the line, not of the execution mode.
                    let mut fresh = if forked {
                        match w.scratch_base(1, light) {
                            Ok(f) => f,
                            Err(e) => {
                                res.harness_error = Some(e);
                                break;
                            }
                        }
                    } else {
                        Sess { ctx: base.ctx.clone() }
                    };
                    let side: &Vec<Elem> = if !forked {
                        &hist
                    } else if session == "C" {
                        &c_suffix
                    } else {
                        &p_suffix
                    };
                    let mut consistent = true;
                    for e in hist.iter().chain(if forked { side.iter() } else { [].iter() }) {
                        let o = fresh.submit(&e.text);
                        if o.is_panic() {
                            consistent = false;
                            break;
                        }
                    }
                    let o2 = if consistent { Some(fresh.submit(&step.text)) } else { None };
                    match o2 {
                        Some(o2) if o2.kind == out.kind => {
                            res.bump("probe.line_panics_in_every_mode");
                            panic_abort = true;
                        }
                        other => {
                            res.fail(
                                "mode-diverged",
                                format!(
                                    "line `{}` panicked ({p}) in the session with failing lines/commands/sibling in between, but a fresh session fed only the successful lines gives {}",
                                    step.text.replace('\n', " ⏎ "),
                                    other.map(|o| o.full_text()).unwrap_or_else(|| "a panic earlier".into())
                                ),
                            );
                        }
                    }
                    break;
                }
                if out.is_ok() {
                    if let OutKind::Ok { value: Some(_), .. } = &out.kind {
                        ans_defined = true;
                    }
                    for f in &step.features {
                        res.bump(&format!("feature.{f}"));
                        res.cell(&format!("{f}|{}|after-failure:{}", if forked { session.as_str() } else { "repl" }, n_failed_lines > 0));
                    }
                    let e = Elem {
                        text: step.text.clone(),
                        out,
                        features: step.features.clone(),
                    };
                    if !forked {
                        hist.push(e);
                    } else if session == "C" {
                        c_suffix.push(e);
                    } else {
                        p_suffix.push(e);
                    }
                } else {
                    n_failed_lines += 1;
                    res.bump("fault.failing_line");
                }
            }
            Op::Command { line } => {
                if forked {
                    continue;
                }
                n_commands += 1;
                fp.write_str(line);
                match repl.line(line, None) {
                    LineResult::Command { output, error } => {
                        res.bump("commands");
                        if error.is_some() {
                            res.bump("commands.argument_error");
                        }
                        if let Some(e) = &error
                            && e.starts_with("PANIC")
                        {
                            res.sut_panics.push(e.clone());
                            res.fail("session-panicked", format!("command `{line}` panicked: {e}"));
                        }
                        if line.starts_with("info ") {
                            res.bump("commands.info");
                        }
                        for o in &output {
                            fp.write_str(o);
                        }
                    }
                    _ => {
                        res.harness_error =
                            Some(format!("command `{line}` was not recognised as a command"));
                    }
                }
            }
            Op::Save {
                how,
                fail_at_byte,
                max_chunk,
                interrupt_every,
            } => {
                if forked {
                    continue;
                }
                save_seq += 1;
                res.bump(&format!("save.{how}"));
                // whether anything would be written at all
                let expected: String = hist
                    .iter()
                    .map(|e| format!("{}\n", e.text.trim()))
                    .collect();
                let before = repl.ctx.clone();
                match how.as_str() {
                    "writer" => {
                        let mut wtr = FaultyWriter::new(*fail_at_byte, *max_chunk, *interrupt_every);
                        let dst = format!("{dir}/hook-{save_seq}.nbt");
                        let r = repl.mirror.save_to_writer(
                            &mut wtr,
                            &dst,
                            SessionHistoryOptions {
                                include_err_lines: false,
                                trim_lines: true,
                            },
                        );
                        res.add("fault.save-io.writer_faults_fired", wtr.faults_fired);
                        // reference: the same save through a writer that never fails
                        let mut good = FaultyWriter::new(None, 1 << 20, 0);
                        let rg = repl.mirror.save_to_writer(
                            &mut good,
                            &dst,
                            SessionHistoryOptions {
                                include_err_lines: false,
                                trim_lines: true,
                            },
                        );
                        if rg.is_err() {
                            res.fail("save-model", "save through a writer that never fails reported an error".to_string());
                        }
                        let full = good.accepted.clone();
                        match r {
                            Ok(()) => {
                                if wtr.accepted != full {
                                    res.fail(
                                        "save-model",
                                        format!(
                                            "save reported success but the (short-writing / interrupting) writer received {:?}, a fault-free save writes {:?}",
                                            String::from_utf8_lossy(&wtr.accepted),
                                            String::from_utf8_lossy(&full)
                                        ),
                                    );
                                }
                                if let Some(k) = fail_at_byte
                                    && *k < full.len()
                                {
                                    res.fail(
                                        "save-model",
                                        format!("save reported success although the writer failed at byte {k} of {}", full.len()),
                                    );
                                }
                            }
                            Err(e) => {
                                res.bump("fault.save-io.error_reported");
                                pending_failed_save = true;
                                let _ = e;
                                if fail_at_byte.map(|k| k >= full.len()).unwrap_or(true) {
                                    res.fail(
                                        "save-model",
                                        format!("save failed although the writer only produced short writes / interruptions (no error before byte {})", full.len()),
                                    );
                                }
                                // what was accepted must be a prefix of the complete content
                                if !full.starts_with(&wtr.accepted) {
                                    res.fail("save-model", "bytes accepted before the write error are not a prefix of the complete history".to_string());
                                }
                            }
                        }
                        if let Err(d) = saved_lines_match(&String::from_utf8_lossy(&full), &hist) {
                            res.fail("save-model", format!("content written by save does not consist of the successful lines: {d}"));
                        }
                    }
                    _ => {
                        let dst = match how.as_str() {
                            "devfull" => "/dev/full".to_string(),
                            "dir" => dir.clone(),
                            "noparent" => format!("{dir}/no/such/dir/h.nbt"),
                            _ => format!("{dir}/hist-{save_seq}.nbt"),
                        };
                        let line = format!("save {dst}");
                        let r = repl.line(&line, None);
                        let LineResult::Command { error, .. } = r else {
                            res.harness_error = Some("save was not recognised as a command".into());
                            break;
                        };
                        if how == "file" {
                            if let Some(e) = error {
                                res.fail("save-model", format!("`{line}` failed: {e}"));
                            } else {
                                let got = std::fs::read(&dst).unwrap_or_default();
                                if let Err(d) = saved_lines_match(&String::from_utf8_lossy(&got), &hist) {
                                    res.fail(
                                        "save-model",
                                        format!(
                                            "saved file {:?} does not consist of the successful lines: {d}",
                                            String::from_utf8_lossy(&got),
                                        ),
                                    );
                                } else {
                                    if pending_failed_save {
                                        res.bump("probe.good_save_after_failed_save");
                                        pending_failed_save = false;
                                    }
                                    // replay the saved file in a fresh session, as `numbat <file>` would
                                    res.bump("replays");
                                    let code = String::from_utf8_lossy(&got).to_string();
                                    let mut fresh = Sess { ctx: base.ctx.clone() };
                                    let o = fresh.submit_with(&code, None, CodeSource::File(dst.clone().into()));
                                    let want_prints: Vec<String> = hist.iter().flat_map(|e| e.out.prints.clone()).collect();
                                    if !hist.is_empty() {
                                        if let OutKind::Panic(p) = &o.kind {
                                            res.sut_panics.push(p.clone());
                                        }
                                        if !o.is_ok() {
                                            res.fail("replay-diverged", format!("replaying the saved history fails: {} — file: `{}`", o.result_text(), code.replace('\n', " ⏎ ")));
                                        } else if o.prints != want_prints {
                                            let d = first_difference(&o.prints, &want_prints).unwrap_or_default();
                                            res.fail("replay-diverged", format!("replaying the saved history prints differently: {d} — file: `{}`", code.replace('\n', " ⏎ ")));
                                        } else {
                                            let live = Sess { ctx: repl.ctx.clone() };
                                            let da = digest(&fresh, &probes, ans_defined, &[]);
                                            let db = digest(&live, &probes, ans_defined, &[]);
                                            if let Some(d) = first_difference(&da, &db) {
                                                res.fail("replay-diverged", format!("session replayed from the saved file vs live REPL session: {d} — file: `{}`", code.replace('\n', " ⏎ ")));
                                            }
                                        }
                                    }
                                    let _ = std::fs::remove_file(&dst);
                                }
                            }
                        } else {
                            res.bump("fault.save-io.unwritable_destination");
                            if how == "devfull" && expected.is_empty() {
                                // nothing to write: creating /dev/full succeeds and no write happens
                                continue;
                            }
                            pending_failed_save = true;
                            if error.is_none() {
                                res.fail("save-model", format!("`{line}` reported success for an unwritable destination"));
                            }
                        }
                    }
                }
                // save (successful or not) must leave the session untouched
                let after = Sess { ctx: repl.ctx.clone() };
                let da = digest(&after, &probes, ans_defined, &[]);
                let db = digest(&Sess { ctx: before }, &probes, ans_defined, &[]);
                if let Some(d) = first_difference(&da, &db) {
                    res.fail("save-model", format!("`save` changed the session: {d}"));
                }
            }
            Op::Fork => {
                forked = true;
                res.bump("forks");
                let p = Sess { ctx: repl.ctx.clone() };
                c_sess = Some(p.clone());
                p_sess = Some(p);
            }
            Op::Drop { session } => {
                res.bump("fault.drop-handle");
                if session == "C" {
                    c_final = c_sess.take();
                } else {
                    p_final = p_sess.take();
                }
            }
        }
        if res.violation.is_some() || res.harness_error.is_some() {
            break;
        }
    }

    let mut cuts = vec![];
    if res.violation.is_none() && res.harness_error.is_none() && !panic_abort {
        let live = if forked {
            None
        } else {
            Some(Sess { ctx: repl.ctx.clone() })
        };
        // ---- M1: fresh session, successful lines only, one input per line
        // M1 runs on a thread of its own that lives for this one replay (only outcomes and digest
        // lines come back): per-thread state of the system under test that the REPL session above
        // filled on the worker thread cannot reach it.
        fn replay_m1(ctx: numbat::Context, texts: &[String], probes: &ProbeSet, ans_defined: bool) -> (Vec<Outcome>, Vec<String>) {
            let mut m1 = Sess { ctx };
            let outs: Vec<Outcome> = texts.iter().map(|t| m1.submit(t)).collect();
            let d1 = digest(&m1, probes, ans_defined, &[]);
            (outs, d1)
        }
        let texts: Vec<String> = hist.iter().map(|e| e.text.clone()).collect();
        let (m1_ctx, m1_ctx2) = (base.ctx.clone(), base.ctx.clone());
        let (texts_r, probes_r) = (&texts, &probes);
        // (1 replay in 3, chosen by the history itself so that a replay of the trace chooses alike:
        // a thread per replay costs about 50 % of C07's run time — measured — mostly allocator traffic)
        let own_thread = texts.iter().map(|t| t.len()).sum::<usize>() % 3 == 0;
        if own_thread {
            res.bump("checks.m1_own_thread");
        }
        let (m1_outs, d1) = if !own_thread {
            Some(replay_m1(base.ctx.clone(), &texts, &probes, ans_defined))
        } else { std::thread::scope(|sc| {
            match std::thread::Builder::new()
                .stack_size(16 << 20)
                .spawn_scoped(sc, move || replay_m1(m1_ctx, texts_r, probes_r, ans_defined))
            {
                Ok(h) => match h.join() {
                    Ok(r) => Some(r),
                    Err(_) => None,
                },
                Err(_) => Some(replay_m1(m1_ctx2, texts_r, probes_r, ans_defined)),
            }
        }) }
        .unwrap_or_else(|| replay_m1(base.ctx.clone(), &texts, &probes, ans_defined));
        for (i, (e, o)) in hist.iter().zip(m1_outs.iter()).enumerate() {
            if let OutKind::Panic(p) = &o.kind {
                res.sut_panics.push(p.clone());
            }
            if *o != e.out {
                res.fail(
                    "mode-diverged",
                    format!(
                        "line {i} `{}`: in the REPL session (with failing lines and commands in between) it gave {} but in a fresh session fed only the successful lines it gives {}",
                        e.text.replace('\n', " ⏎ "),
                        e.out.full_text(),
                        o.full_text()
                    ),
                );
                break;
            }
        }
        res.bump("checks.m1");
        if res.violation.is_none()
            && let Some(live) = &live
        {
            let dl = digest(live, &probes, ans_defined, &[]);
            if let Some(d) = first_difference(&dl, &d1) {
                res.fail("mode-diverged", format!("REPL session (failing lines, commands, saves in between) vs fresh line-by-line session: {d}"));
            }
        }
        // ---- M2: everything joined
        if res.violation.is_none() && hist.len() >= 2 {
            let mut m2 = Sess { ctx: base.ctx.clone() };
            res.bump("checks.m2");
            if check_joined(&mut m2, &hist, "all lines joined into one input", CodeSource::Text, false, res) {
                let d2 = digest(&m2, &probes, ans_defined, &[]);
                if let Some(d) = first_difference(&d2, &d1) {
                    res.fail("mode-diverged", format!("all lines joined into one input vs line by line: {d}"));
                }
            }
        }
        // ---- M3: chunks at seeded cut points
        if res.violation.is_none() && hist.len() >= 3 {
            cuts = src.cuts(hist.len());
            if !cuts.is_empty() {
                let mut m3 = Sess { ctx: base.ctx.clone() };
                res.bump("checks.m3");
                let mut start = 0;
                let mut ok = true;
                for c in cuts.iter().copied().chain(std::iter::once(hist.len())) {
                    if c <= start {
                        continue;
                    }
                    ok = check_joined(&mut m3, &hist[start..c], &format!("lines {start}..{c} submitted as one chunk"), CodeSource::Text, false, res);
                    if !ok {
                        break;
                    }
                    start = c;
                }
                if ok {
                    let d3 = digest(&m3, &probes, ans_defined, &[]);
                    if let Some(d) = first_difference(&d3, &d1) {
                        res.fail("mode-diverged", format!("chunked evaluation (cuts {cuts:?}) vs line by line: {d}"));
                    }
                }
            }
        }
        // ---- M5: fork
        if res.violation.is_none() && forked {
            if p_final.is_none() {
                p_final = p_sess.take();
            }
            if c_final.is_none() {
                c_final = c_sess.take();
            }
            for (name, live, suffix) in [("parent", &p_final, &p_suffix), ("clone", &c_final, &c_suffix)] {
                let Some(live) = live else { continue };
                // the reference never had a sibling and shares nothing with the pair under test:
                // it comes from another independently built base and is fed the prefix and this
                // side's own lines
                let mut scratch = match w.scratch_base(if name == "parent" { 1 } else { 2 }, light) {
                    Ok(f) => f,
                    Err(e) => {
                        res.harness_error = Some(e);
                        break;
                    }
                };
                for e in hist.iter() {
                    let _ = scratch.submit(&e.text);
                }
                res.bump("checks.fork_side");
                for (i, e) in suffix.iter().enumerate() {
                    let o = scratch.submit(&e.text);
                    if o != e.out {
                        res.fail(
                            "fork-diverged",
                            format!(
                                "{name} after the fork, line {i} `{}`: gave {} but a from-scratch session (prefix + this side's own lines) gives {}",
                                e.text.replace('\n', " ⏎ "),
                                e.out.full_text(),
                                o.full_text()
                            ),
                        );
                        break;
                    }
                }
                if res.violation.is_none() {
                    let ds = digest(&scratch, &probes, ans_defined, &[]);
                    let dl = digest(live, &probes, ans_defined, &[]);
                    if let Some(d) = first_difference(&dl, &ds) {
                        res.fail("fork-diverged", format!("{name} of a copied session vs from-scratch session that never had a sibling: {d}"));
                    }
                }
            }
        }
        for l in &d1 {
            fp.write_str(l);
        }
    }
    let _ = (n_failed_lines, n_commands);
    res.add("vm_instructions", crate::sess::VM_STEPS_TOTAL.with(|c| c.replace(0)));
    res.add("inputs_including_probes", crate::sess::INPUTS_TOTAL.with(|c| c.replace(0)));
    res.fingerprint = fp.0;
    let feats: std::collections::BTreeSet<&str> = hist
        .iter()
        .chain(p_suffix.iter())
        .chain(c_suffix.iter())
        .flat_map(|e| e.features.iter().map(|s| s.as_str()))
        .collect();
    let n_ok = hist.len() + p_suffix.len() + c_suffix.len();
    res.nontrivial = n_ok >= 3
        && (feats.contains("redefinition")
            || feats.contains("function-value")
            || feats.contains("ans-chain")
            || feats.contains("import")
            || hist.iter().any(|e| e.text.contains("unit ")));
    res.states.insert(fp.0);
    (executed, cuts)
}

/// Cross-check of the stubbed REPL loop against the real binary: the same lines are typed
/// into the in-process glue and into the real interactive REPL (under a pseudo terminal);
/// the history saved by the real REPL must consist of the lines that succeeded, must be
/// identical to what the glue saves, and must replay (`numbat <file>`) successfully with the
/// markers of exactly the successful lines.
pub fn exec_binary(w: &mut SessWorker, trace: &Value, res: &mut ExecResult) {
    let ops: Vec<Op> = trace["steps"]
        .as_array()
        .map(|a| a.iter().filter_map(Op::from_json).collect())
        .unwrap_or_default();
    let base = match w.base(false) {
        Ok(b) => b,
        Err(e) => {
            res.harness_error = Some(e);
            return;
        }
    };
    let mut typed: Vec<String> = vec![];
    let mut repl = ReplSim::new(base.ctx.clone());
    let mut hist: Vec<Elem> = vec![];
    let mut failed_markers: Vec<String> = vec![];
    let mut fp = Fnv::default();
    let marker_of = |l: &str| -> Option<String> {
        let l = l.trim();
        let n = l.strip_prefix("print(\"mk-")?.strip_suffix("\")")?;
        Some(format!("mk-{n}"))
    };
    for op in &ops {
        let line = match op {
            Op::Line { step, .. } => step.text.clone(),
            Op::Command { line } => line.clone(),
            _ => continue,
        };
        fp.write_str(&line);
        typed.push(line.clone());
        match repl.line(&line, None) {
            LineResult::Input(o) => {
                res.bump("inputs");
                if o.is_panic() {
                    res.sut_panics.push(o.result_text());
                    return;
                }
                if o.is_ok() {
                    hist.push(Elem {
                        text: line.clone(),
                        out: o,
                        features: vec![],
                    });
                } else {
                    res.bump("fault.failing_line");
                    failed_markers.extend(line.lines().filter_map(marker_of));
                }
            }
            LineResult::Command { .. } => res.bump("commands"),
            LineResult::Skipped => {}
        }
    }
    let sandbox = std::path::PathBuf::from(work_dir()).join("pty");
    let _ = std::fs::remove_dir_all(&sandbox);
    let real_file = sandbox.join("run/real.nbt");
    let glue_file = sandbox.join("glue.nbt");
    let mut all = typed.clone();
    all.push(format!("save {}", real_file.display()));
    all.push("quit".to_string());
    let r = crate::ptyrepl::run_repl(
        &crate::c22::cli_binary(),
        &sandbox,
        &crate::sess::modules_dir(),
        &all,
        std::time::Duration::from_secs(60),
    );
    let r = match r {
        Ok(r) => r,
        Err(e) => {
            res.harness_error = Some(format!("pty REPL: {e}"));
            return;
        }
    };
    res.bump("pty_sessions");
    if r.output.contains("panicked at") {
        // the real REPL died on a line that the in-process session survived (it does not render
        // diagnostics): the two ways of running the same lines disagree
        let at = r.output.lines().find(|l| l.contains("panicked at")).unwrap_or("").trim().to_string();
        let tail: String = r.output.chars().rev().take(300).collect::<String>().chars().rev().collect();
        res.fail(
            "repl-binary-crash",
            format!("the interactive numbat process crashed ({at}) while the same lines run to the end in-process; output tail: {tail:?}"),
        );
        return;
    }
    if r.timed_out {
        res.harness_error = Some(format!(
            "pty REPL session timed out; output tail: {:?}",
            r.output.chars().rev().take(600).collect::<String>().chars().rev().collect::<String>()
        ));
        return;
    }
    let _ = std::fs::create_dir_all(&sandbox);
    let _ = repl.line(&format!("save {}", glue_file.display()), None);
    let real = std::fs::read(&real_file).unwrap_or_default();
    let glue = std::fs::read(&glue_file).unwrap_or_default();
    fp.write(&real);
    let lines_text = typed.iter().map(|l| l.replace('\n', " ⏎ ")).collect::<Vec<_>>().join(" | ");
    if let Err(d) = saved_lines_match(&String::from_utf8_lossy(&real), &hist) {
        res.fail(
            "repl-binary-save",
            format!("history saved by the real REPL does not consist of the successful lines: {d}; typed: {lines_text}"),
        );
        return;
    }
    if real != glue {
        res.fail(
            "repl-binary-save",
            format!(
                "history saved by the real REPL {:?} differs from what the in-process REPL glue saves {:?}; typed: {lines_text}",
                String::from_utf8_lossy(&real),
                String::from_utf8_lossy(&glue)
            ),
        );
        return;
    }
    // replay with the real binary
    if !hist.is_empty() {
        let mut files = std::collections::BTreeMap::new();
        files.insert("run/script.nbt".to_string(), real.clone());
        let out = crate::c22::run_cli(
            &["--no-config".to_string(), "--no-init".to_string(), "script.nbt".to_string()],
            &files,
            &[],
            &crate::sess::modules_dir(),
        );
        res.bump("replays_with_real_binary");
        let so: Vec<&str> = out.stdout.lines().map(|l| l.trim()).collect();
        if out.code != Some(0) {
            res.fail(
                "replay-diverged",
                format!("`numbat <saved file>` exits with {:?}: stderr {:?}; file {:?}", out.code, out.stderr, String::from_utf8_lossy(&real)),
            );
            return;
        }
        let mut at = 0;
        for m in hist.iter().flat_map(|e| e.text.lines().filter_map(marker_of).collect::<Vec<_>>()) {
            match so[at..].iter().position(|l| *l == m) {
                Some(p) => at += p + 1,
                None => {
                    res.fail("replay-diverged", format!("marker {m} of a successful line is missing or out of order when the saved file is replayed: stdout {:?}", out.stdout));
                    return;
                }
            }
        }
        for m in &failed_markers {
            if so.iter().any(|l| l == m) {
                res.fail("replay-diverged", format!("marker {m} of a FAILED line shows up when the saved file is replayed"));
                return;
            }
        }
    }
    res.fingerprint = fp.0;
    res.nontrivial = hist.len() >= 3;
}

pub struct C07;

impl Prop for C07 {
    type Worker = SessWorker;
    fn id(&self) -> &'static str {
        "C07"
    }
    fn new_worker(&self) -> SessWorker {
        SessWorker::new()
    }
    fn runs(&self, tier: Tier) -> u64 {
        match tier {
            Tier::Quick => 10_000,
            Tier::Thorough => 400_000,
        }
    }
    fn recycle_every(&self) -> u64 {
        4_000
    }
    fn run(&self, w: &mut SessWorker, seed: u64, run: u64, tier: Tier) -> (Value, ExecResult) {
        let mut rng = Rng::new(seed);
        // sub-batch "binary": the real REPL under a pseudo terminal (expensive: ~1 s each)
        let binary_every: u64 = std::env::var("NBSIM_C07_BINARY_EVERY")
            .ok()
            .and_then(|s| s.parse().ok())
            .unwrap_or(if tier == Tier::Thorough { 300 } else { 600 });
        if run % binary_every == 1 {
            let real = w.real_modules(false);
            let mut cfg = Gen::swarm_cfg(&mut rng, true, real);
            cfg.synthetic_modules = false;
            cfg.light_base = false;
            cfg.weights[18] = cfg.weights[18].max(5);
            cfg.fault_kinds.retain(|k| {
                !matches!(k, FaultKind::VmFault | FaultKind::BrokenModule | FaultKind::ModuleUnavailable)
            });
            if cfg.fault_kinds.is_empty() {
                cfg.fault_kinds.push(FaultKind::RuntimeError);
            }
            let n = rng.range(4, 20) as usize;
            let mut g = Gen::new(rng.fork(), cfg);
            g.with_markers = true;
            let mut src = GenOps {
                gen_p: g,
                gen_c: None,
                fork_mode: false,
                remaining_prefix: n,
                remaining_suffix: 0,
                forked: false,
                dropped: None,
                last_session: "R".into(),
                decorate: true,
                after_info: false,
                no_saves: true,
                last_defines: vec![],
            last_ok_text: Default::default(),
            pending_text: String::new(),
                rng,
            };
            // generate the lines against an in-process session (feedback), then cross-check
            let mut res = ExecResult::default();
            let (ops, _) = exec_ops(w, false, false, &mut src, &mut res);
            let trace = json!({
                "format": 1,
                "property": "C07",
                "config": {"base": "prelude", "mode": "binary", "faults": true},
                "steps": ops.iter().map(|o| o.to_json()).collect::<Vec<_>>(),
            });
            if res.violation.is_some() || res.harness_error.is_some() {
                return (trace, res);
            }
            let mut res = self.exec(w, &trace);
            res.bump("runs.real-binary-repl");
            return (trace, res);
        }
        // sub-batches: 1 run in 4 is a fork run (no failing traffic); the others are REPL runs,
        // of which 1 in 4 is free of failing lines
        let fork_mode = run % 4 == 3;
        let faults = !fork_mode && run % 16 != 0;
        let light = rng.chance(0.5);
        let real = w.real_modules(light);
        let mut cfg = Gen::swarm_cfg(&mut rng, faults, real);
        cfg.light_base = light;
        // bias towards what distinguishes the modes
        for k in [8usize, 17, 20, 21, 15, 11] {
            cfg.weights[k] = cfg.weights[k].max(3);
        }
        cfg.fault_kinds.retain(|k| *k != FaultKind::VmFault);
        if cfg.fault_kinds.is_empty() {
            cfg.fault_kinds.push(FaultKind::RuntimeError);
        }
        let n = rng.range(4, 36) as usize;
        let (prefix, suffix) = if fork_mode {
            let p = rng.range(1, n as i64 - 1) as usize;
            (p, n - p + 4)
        } else {
            (n, 0)
        };
        let mut src = GenOps {
            gen_p: Gen::new(rng.fork(), cfg),
            gen_c: None,
            fork_mode,
            remaining_prefix: prefix,
            remaining_suffix: suffix,
            forked: false,
            dropped: None,
            last_session: "R".into(),
            decorate: !fork_mode,
            after_info: false,
            no_saves: false,
            last_defines: vec![],
            last_ok_text: Default::default(),
            pending_text: String::new(),
            rng,
        };
        let mut res = ExecResult::default();
        res.bump(if fork_mode {
            "runs.fork"
        } else if faults {
            "runs.repl-with-failing-traffic"
        } else {
            "runs.repl-fault-free"
        });
        let (ops, cuts) = exec_ops(w, light, fork_mode, &mut src, &mut res);
        let trace = json!({
            "format": 1,
            "property": "C07",
            "config": {"base": if light {"light"} else {"prelude"}, "mode": if fork_mode {"fork"} else {"repl"}, "faults": faults, "m3_cuts": cuts},
            "steps": ops.iter().map(|o| o.to_json()).collect::<Vec<_>>(),
        });
        (trace, res)
    }
    fn exec(&self, w: &mut SessWorker, trace: &Value) -> ExecResult {
        if trace["config"]["mode"].as_str() == Some("binary") {
            let mut res = ExecResult::default();
            exec_binary(w, trace, &mut res);
            return res;
        }
        let light = trace["config"]["base"].as_str() == Some("light");
        let ops: Vec<Op> = trace["steps"]
            .as_array()
            .map(|a| a.iter().filter_map(Op::from_json).collect())
            .unwrap_or_default();
        let cuts: Vec<usize> = trace["config"]["m3_cuts"]
            .as_array()
            .map(|a| a.iter().filter_map(|x| x.as_u64().map(|v| v as usize)).collect())
            .unwrap_or_default();
        let mut src = ReplayOps { ops, i: 0, cuts };
        let mut res = ExecResult::default();
        res.bump(match trace["config"]["mode"].as_str() {
            Some("fork") => "runs.fork",
            _ if trace["config"]["faults"].as_bool().unwrap_or(true) => "runs.repl-with-failing-traffic",
            _ => "runs.repl-fault-free",
        });
        let fork_run = trace["config"]["mode"].as_str() == Some("fork");
        exec_ops(w, light, fork_run, &mut src, &mut res);
        res
    }
    fn shrink(&self, trace: &Value) -> Vec<Value> {
        let mut out = shrink_steps(trace);
        // fewer cut points
        if let Some(c) = trace["config"]["m3_cuts"].as_array()
            && !c.is_empty()
        {
            for i in 0..c.len() {
                let mut c2 = c.clone();
                c2.remove(i);
                let mut t = trace.clone();
                t["config"]["m3_cuts"] = Value::Array(c2);
                out.push(t);
            }
        }
        out
    }
    fn rule(&self) -> String {
        "Each run generates a session history of 4-36 lines with the shared workload generator (biased towards \
         redefinition/shadowing, function values, ans/_ chains, imports and unit definitions). REPL runs (3 of 4) \
         type the lines - with leading/trailing blank space and indented continuation lines - into a scripted REPL \
         (real CommandRunner + SessionHistory) interleaved with failing lines of every kind, help/list/info commands \
         (info is followed by `ans`), and save at seeded points (real file, fault-injecting writer with error at \
         byte k / short writes / Interrupted, /dev/full, a directory, a missing parent); every saved file is \
         compared byte for byte with the model and replayed in a fresh session. Afterwards the successful lines are \
         re-run one per input in a fresh session, all joined, and cut into chunks at seeded points. Fork runs (1 of 4) \
         clone the session at a seeded point and continue parent and clone with different lines in a seeded \
         interleaving (one side possibly dropped early; each side re-defines the sibling's names, defines identifiers \
         derived from the sibling's units - prefix + name - as variables, and echoes the sibling's last line); each \
         side is compared with a from-scratch session. \
         Non-trivial = at least 3 successful lines containing a redefinition, a function value, an ans chain, an \
         import or a unit definition. Distinct = distinct fingerprint over (lines, outcomes, command output, final digest)."
            .to_string()
    }
    fn expected_probes(&self) -> Vec<&'static str> {
        vec![
            "runs.fork",
            "runs.repl-with-failing-traffic",
            "runs.repl-fault-free",
            "fault.failing_line",
            "fault.drop-handle",
            "fault.save-io.writer_faults_fired",
            "fault.save-io.error_reported",
            "fault.save-io.unwritable_destination",
            "probe.good_save_after_failed_save",
            "commands.info",
            "commands.argument_error",
            "replays",
            "checks.m2",
            "checks.m3",
            "checks.fork_side",
            "runs.real-binary-repl",
            "replays_with_real_binary",
            "feature.redefinition",
            "feature.fn-redefinition",
            "feature.function-value",
            "feature.ans-chain",
            "feature.import",
        ]
    }
    fn assumptions(&self) -> Vec<String> {
        vec![
            "the REPL loop is a ~20-line copy of the glue in numbat-cli/src/main.rs (try_run_command -> interpret_with_settings -> push_to_history); rustyline is not involved".into(),
            "writer faults go through the verif-hooks entry point save_to_writer on a mirror SessionHistory that receives the same pushes as the CommandRunner's private one".into(),
            "reset/clear/quit are not generated; now(), random(), currencies excluded".into(),
            "result comparison for joined input applies only when the last line ends in an expression statement".into(),
        ]
    }
    fn extra_evidence(&self, _tier: Tier) -> Value {
        json!({
            "components": {
                "real": ["Context, CommandRunner, SessionHistory, resolver..VM (current /repo working tree, feature verif-hooks)", "real files under /verif/work for save", "standard-library modules from /repo/numbat/modules"],
                "stub": ["line editor and REPL loop glue", "module importer (SimImporter)", "fault-injecting io::Write for save", "exchange rates (test stub)"]
            },
            "simulated_time": "logical: lines typed / inputs submitted / VM instructions (counters); no timers in this code",
        })
    }
}
