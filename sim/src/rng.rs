//! The only source of randomness in the simulator: xoshiro256** seeded through splitmix64.
//! Implemented here so that a seed means the same run on every toolchain and crate version.

#[derive(Clone, Debug)]
pub struct Rng {
    s: [u64; 4],
}

pub fn splitmix64(state: &mut u64) -> u64 {
    *state = state.wrapping_add(0x9E37_79B9_7F4A_7C15);
    let mut z = *state;
    z = (z ^ (z >> 30)).wrapping_mul(0xBF58_476D_1CE4_E5B9);
    z = (z ^ (z >> 27)).wrapping_mul(0x94D0_49BB_1331_11EB);
    z ^ (z >> 31)
}

/// Seed of run `run` of property `tag` under the user-visible `VERIF_SEED`.
pub fn run_seed(verif_seed: u64, tag: &str, run: u64) -> u64 {
    let mut st = verif_seed ^ 0xA076_1D64_78BD_642F;
    let mut acc = splitmix64(&mut st);
    for b in tag.bytes() {
        st ^= b as u64;
        acc ^= splitmix64(&mut st);
    }
    st ^= run.wrapping_mul(0xD6E8_FEB8_6659_FD93);
    acc ^ splitmix64(&mut st)
}

impl Rng {
    pub fn new(seed: u64) -> Self {
        let mut st = seed;
        let s = [
            splitmix64(&mut st),
            splitmix64(&mut st),
            splitmix64(&mut st),
            splitmix64(&mut st),
        ];
        Rng { s }
    }

    pub fn next_u64(&mut self) -> u64 {
        let result = self.s[1].wrapping_mul(5).rotate_left(7).wrapping_mul(9);
        let t = self.s[1] << 17;
        self.s[2] ^= self.s[0];
        self.s[3] ^= self.s[1];
        self.s[1] ^= self.s[2];
        self.s[0] ^= self.s[3];
        self.s[2] ^= t;
        self.s[3] = self.s[3].rotate_left(45);
        result
    }

    /// Uniform in `0..n` (n > 0).
    pub fn below(&mut self, n: usize) -> usize {
        debug_assert!(n > 0);
        ((self.next_u64() >> 11) % (n as u64)) as usize
    }

    /// Uniform in `lo..=hi`.
    pub fn range(&mut self, lo: i64, hi: i64) -> i64 {
        debug_assert!(lo <= hi);
        lo + self.below((hi - lo + 1) as usize) as i64
    }

    pub fn unit(&mut self) -> f64 {
        (self.next_u64() >> 11) as f64 / (1u64 << 53) as f64
    }

    pub fn chance(&mut self, p: f64) -> bool {
        self.unit() < p
    }

    pub fn pick<'a, T>(&mut self, xs: &'a [T]) -> &'a T {
        &xs[self.below(xs.len())]
    }

    pub fn pick_weighted(&mut self, weights: &[u32]) -> usize {
        let total: u64 = weights.iter().map(|w| *w as u64).sum();
        debug_assert!(total > 0);
        let mut x = (self.next_u64() >> 11) % total;
        for (i, w) in weights.iter().enumerate() {
            if x < *w as u64 {
                return i;
            }
            x -= *w as u64;
        }
        weights.len() - 1
    }

    pub fn shuffle<T>(&mut self, xs: &mut [T]) {
        for i in (1..xs.len()).rev() {
            let j = self.below(i + 1);
            xs.swap(i, j);
        }
    }

    pub fn fork(&mut self) -> Rng {
        Rng::new(self.next_u64())
    }
}

/// FNV-1a 64, used for fingerprints (stable across processes, unlike `DefaultHasher` keys).
#[derive(Clone, Copy)]
pub struct Fnv(pub u64);

impl Default for Fnv {
    fn default() -> Self {
        Fnv(0xcbf2_9ce4_8422_2325)
    }
}

impl Fnv {
    pub fn write(&mut self, bytes: &[u8]) {
        for b in bytes {
            self.0 ^= *b as u64;
            self.0 = self.0.wrapping_mul(0x0000_0100_0000_01B3);
        }
    }
    pub fn write_str(&mut self, s: &str) {
        self.write(s.as_bytes());
        self.write(&[0xff]);
    }
    pub fn write_u64(&mut self, x: u64) {
        self.write(&x.to_le_bytes());
    }
}

pub fn fnv_str(s: &str) -> u64 {
    let mut f = Fnv::default();
    f.write_str(s);
    f.0
}
