//! Batch runner shared by all properties: seeded runs on worker threads, aggregation in run
//! order, minimisation and replay files for violations, known-findings handling, evidence.

use std::collections::{BTreeMap, BTreeSet};
use std::sync::Mutex;
use std::sync::atomic::{AtomicBool, AtomicU64, Ordering};
use std::time::Instant;

use serde_json::{Value, json};

use crate::rng::run_seed;

#[derive(Clone, Debug)]
pub struct Violation {
    /// Which oracle failed, e.g. `twin-diverged`.
    pub oracle: String,
    pub detail: String,
}

#[derive(Default)]
pub struct ExecResult {
    pub violation: Option<Violation>,
    pub fingerprint: u64,
    pub nontrivial: bool,
    /// Named counters: fault kinds that actually fired, probes hit, operations executed …
    pub stats: BTreeMap<String, u64>,
    /// Coverage cells (hashed) hit by this run.
    pub cells: BTreeSet<u64>,
    /// Abstract states reached (hashed).
    pub states: BTreeSet<u64>,
    pub sut_panics: Vec<String>,
    /// Harness-level problem (not a violation): e.g. generator could not build the run.
    pub harness_error: Option<String>,
}

impl ExecResult {
    pub fn bump(&mut self, key: &str) {
        *self.stats.entry(key.to_string()).or_insert(0) += 1;
    }
    pub fn add(&mut self, key: &str, n: u64) {
        *self.stats.entry(key.to_string()).or_insert(0) += n;
    }
    pub fn cell(&mut self, s: &str) {
        self.cells.insert(crate::rng::fnv_str(s));
    }
    pub fn fail(&mut self, oracle: &str, detail: String) {
        if self.violation.is_none() {
            self.violation = Some(Violation {
                oracle: oracle.to_string(),
                detail,
            });
        }
    }
}

#[derive(Clone, Copy, PartialEq, Eq, Debug)]
pub enum Tier {
    Quick,
    Thorough,
}

impl Tier {
    pub fn name(self) -> &'static str {
        match self {
            Tier::Quick => "quick",
            Tier::Thorough => "thorough",
        }
    }
}

pub trait Prop: Sync {
    type Worker;
    fn id(&self) -> &'static str;
    fn new_worker(&self) -> Self::Worker;
    /// Generate and execute run `run` (the seed already mixes VERIF_SEED, property and run index).
    /// Returns the literal trace that was executed and what the oracles said.
    fn run(&self, w: &mut Self::Worker, seed: u64, run: u64, tier: Tier) -> (Value, ExecResult);
    /// Execute a literal trace (replay, minimisation). Must not use any randomness.
    fn exec(&self, w: &mut Self::Worker, trace: &Value) -> ExecResult;
    /// Simpler variants of a failing trace, most aggressive first.
    fn shrink(&self, trace: &Value) -> Vec<Value>;
    fn rule(&self) -> String;
    fn runs(&self, tier: Tier) -> u64;
    /// Extra per-property evidence (real/stub table, exhaustive sub-spaces, …).
    fn extra_evidence(&self, _tier: Tier) -> Value {
        json!({})
    }
    /// Stats keys that are expected to be non-zero; reported under `probes_at_zero` otherwise.
    fn expected_probes(&self) -> Vec<&'static str> {
        vec![]
    }
    fn assumptions(&self) -> Vec<String> {
        vec![]
    }
    /// Work that is not a seeded run (exhaustive enumerations). Returns traces to execute in addition.
    fn fixed_traces(&self, _tier: Tier) -> Vec<Value> {
        vec![]
    }
    /// Recycle the worker (drop and rebuild) every this many runs (memory hygiene).
    fn recycle_every(&self) -> u64 {
        u64::MAX
    }
}

pub struct BatchCfg {
    pub tier: Tier,
    pub verif_seed: u64,
    pub workers: usize,
    pub runs_override: Option<u64>,
    pub max_seconds: Option<f64>,
    pub evidence_path: Option<String>,
    pub fingerprints_out: Option<String>,
    pub selfcheck_every: u64,
}

pub struct KnownFinding {
    pub property: String,
    pub oracle: String,
    pub needle: String,
    pub text: String,
}

pub fn load_known_findings() -> Vec<KnownFinding> {
    let path = format!("{}/KNOWN_FINDINGS.txt", crate::verif_root());
    let mut v = vec![];
    let Ok(s) = std::fs::read_to_string(&path) else {
        return v;
    };
    for line in s.lines() {
        let line = line.trim();
        let Some(rest) = line.strip_prefix("finding:") else {
            continue;
        };
        // finding: property=C07 oracle=<id> match="<substring>" <free text>
        let mut property = String::new();
        let mut oracle = String::new();
        let mut needle = String::new();
        let rest = rest.trim();
        for tok in rest.split_whitespace() {
            if let Some(p) = tok.strip_prefix("property=") {
                property = p.to_string();
            } else if let Some(p) = tok.strip_prefix("oracle=") {
                oracle = p.to_string();
            }
        }
        if let Some(i) = rest.find("match=\"") {
            let tail = &rest[i + 7..];
            if let Some(j) = tail.find('"') {
                needle = tail[..j].to_string();
            }
        }
        if !property.is_empty() && !oracle.is_empty() && !needle.is_empty() {
            v.push(KnownFinding {
                property,
                oracle,
                needle,
                text: rest.to_string(),
            });
        }
    }
    v
}

/// Greedy delta-debugging driven by the property's `shrink` candidates: accept a candidate if
/// the same oracle still fails.
pub fn minimise<P: Prop>(p: &P, w: &mut P::Worker, trace: &Value, oracle: &str) -> (Value, u64) {
    let mut cur = trace.clone();
    let mut evals = 0u64;
    let deadline = Instant::now() + std::time::Duration::from_secs(120);
    loop {
        let mut improved = false;
        for cand in p.shrink(&cur) {
            if Instant::now() > deadline || evals > 20_000 {
                return (cur, evals);
            }
            evals += 1;
            let r = p.exec(w, &cand);
            if let Some(v) = &r.violation
                && v.oracle == oracle
            {
                cur = cand;
                improved = true;
                break;
            }
        }
        if !improved {
            return (cur, evals);
        }
    }
}

/// What a worker keeps of the runs that need no individual treatment (streaming aggregation:
/// a thorough batch has tens of millions of runs).
#[derive(Default)]
struct Agg {
    evaluations: u64,
    stats: BTreeMap<String, u64>,
    fps: Vec<u64>,
    nontrivial_fps: Vec<u64>,
    cells: BTreeSet<u64>,
    states: Vec<u64>,
    panics: BTreeMap<String, u64>,
    fp_pairs: Vec<(u64, u64)>,
    /// lengths at which the vectors are de-duplicated next (doubling: amortised cost)
    states_limit: usize,
    fps_limit: usize,
}

fn compact(v: &mut Vec<u64>) {
    v.sort_unstable();
    v.dedup();
}

impl Agg {
    fn absorb(&mut self, run: u64, res: &ExecResult, keep_pairs: bool) {
        self.evaluations += 1;
        for (k, v) in &res.stats {
            *self.stats.entry(k.clone()).or_insert(0) += v;
        }
        self.fps.push(res.fingerprint);
        if res.nontrivial {
            self.nontrivial_fps.push(res.fingerprint);
        }
        self.cells.extend(res.cells.iter());
        self.states.extend(res.states.iter());
        for pmsg in &res.sut_panics {
            *self.panics.entry(pmsg.clone()).or_insert(0) += 1;
        }
        if keep_pairs {
            self.fp_pairs.push((run, res.fingerprint));
        }
        // keep memory bounded: de-duplicate when a vector has doubled since the last time
        if self.states.len() > self.states_limit.max(1 << 23) {
            compact(&mut self.states);
            self.states_limit = self.states.len() * 2;
        }
        if self.fps.len() > self.fps_limit.max(1 << 23) {
            compact(&mut self.fps);
            compact(&mut self.nontrivial_fps);
            self.fps_limit = self.fps.len() * 2;
        }
    }
    fn merge(&mut self, mut o: Agg) {
        self.evaluations += o.evaluations;
        for (k, v) in o.stats {
            *self.stats.entry(k).or_insert(0) += v;
        }
        self.fps.append(&mut o.fps);
        self.nontrivial_fps.append(&mut o.nontrivial_fps);
        self.cells.extend(o.cells.iter());
        self.states.append(&mut o.states);
        for (k, v) in o.panics {
            *self.panics.entry(k).or_insert(0) += v;
        }
        self.fp_pairs.append(&mut o.fp_pairs);
        compact(&mut self.fps);
        compact(&mut self.nontrivial_fps);
        compact(&mut self.states);
    }
}

struct RunOut {
    run: u64,
    res: ExecResult,
    sample: Option<Value>,
    violation_trace: Option<Value>,
    /// the trace as generated (before minimisation), kept for violations only
    original_trace: Option<Value>,
}

pub fn run_batch<P: Prop>(p: &P, cfg: &BatchCfg) -> i32 {
    let t0 = Instant::now();
    let id = p.id();
    let fixed = p.fixed_traces(cfg.tier);
    let n_fixed = fixed.len() as u64;
    let n_seeded = cfg.runs_override.unwrap_or_else(|| p.runs(cfg.tier));
    let total = n_fixed + n_seeded;
    println!(
        "nbsim property={id} tier={} VERIF_SEED={} runs={} (fixed {} + seeded {}) workers={}",
        cfg.tier.name(),
        cfg.verif_seed,
        total,
        n_fixed,
        n_seeded,
        cfg.workers
    );

    let next = AtomicU64::new(0);
    let stop = AtomicBool::new(false);
    let n_viol = AtomicU64::new(0);
    let outs: Mutex<Vec<RunOut>> = Mutex::new(Vec::new());
    let aggs: Mutex<Vec<Agg>> = Mutex::new(Vec::new());
    let harness_errors: Mutex<Vec<String>> = Mutex::new(Vec::new());

    std::thread::scope(|scope| {
        for _ in 0..cfg.workers {
            scope.spawn(|| {
                let mut w = p.new_worker();
                let mut local: Vec<RunOut> = Vec::new();
                let mut agg = Agg::default();
                let mut since_recycle = 0u64;
                loop {
                    if stop.load(Ordering::Relaxed) {
                        break;
                    }
                    if let Some(max) = cfg.max_seconds
                        && t0.elapsed().as_secs_f64() > max
                    {
                        break;
                    }
                    let i = next.fetch_add(1, Ordering::Relaxed);
                    if i >= total {
                        break;
                    }
                    since_recycle += 1;
                    if since_recycle > p.recycle_every() {
                        w = p.new_worker();
                        since_recycle = 0;
                    }
                    let (trace, res) = if i < n_fixed {
                        let tr = fixed[i as usize].clone();
                        let r = p.exec(&mut w, &tr);
                        (tr, r)
                    } else {
                        let run = i - n_fixed;
                        let seed = run_seed(cfg.verif_seed, id, run);
                        let (tr, r) = p.run(&mut w, seed, run, cfg.tier);
                        if cfg.selfcheck_every > 0 && run % cfg.selfcheck_every == 0 {
                            // determinism self-check: the literal trace must reproduce the fingerprint
                            let r2 = p.exec(&mut w, &tr);
                            if r2.fingerprint != r.fingerprint
                                || r2.violation.is_some() != r.violation.is_some()
                            {
                                harness_errors.lock().unwrap().push(format!(
                                    "determinism self-check failed for run {run} (seed {seed}): fingerprint {:016x} vs {:016x}",
                                    r.fingerprint, r2.fingerprint
                                ));
                                stop.store(true, Ordering::Relaxed);
                            }
                        }
                        (tr, r)
                    };
                    if let Some(h) = &res.harness_error {
                        harness_errors
                            .lock()
                            .unwrap()
                            .push(format!("run {i}: {h}"));
                        stop.store(true, Ordering::Relaxed);
                    }
                    if !res.sut_panics.is_empty() && res.violation.is_none() {
                        // identical panics in all compared sessions: not a violation of this
                        // property, but keep the trace for inspection
                        let dir = format!("{}/work/panics", crate::verif_root());
                        let _ = std::fs::create_dir_all(&dir);
                        if std::fs::read_dir(&dir).map(|d| d.count()).unwrap_or(0) < 40 {
                            let mut t = trace.clone();
                            if let Some(o) = t.as_object_mut() {
                                o.insert("sut_panics".into(), json!(res.sut_panics));
                            }
                            let _ = std::fs::write(
                                format!("{dir}/{id}-{}-{i}.json", cfg.verif_seed),
                                serde_json::to_string_pretty(&t).unwrap(),
                            );
                        }
                    }
                    let mut violation_trace = None;
                    let mut original_trace = None;
                    if let Some(v) = &res.violation {
                        original_trace = Some(trace.clone());
                        let (min, evals) = minimise(p, &mut w, &trace, &v.oracle);
                        let mut min = min;
                        // the detail that goes with the minimised trace
                        let vmin = p.exec(&mut w, &min).violation;
                        let res_detail = vmin.map(|x| x.detail).unwrap_or_else(|| v.detail.clone());
                        if let Some(o) = min.as_object_mut() {
                            o.insert("minimise_evaluations".into(), json!(evals));
                            o.insert("original_run".into(), json!(i));
                            o.insert("detail".into(), json!(res_detail));
                            o.insert("original_detail".into(), json!(v.detail));
                            o.insert("verif_seed".into(), json!(cfg.verif_seed));
                        }
                        violation_trace = Some(min);
                        if n_viol.fetch_add(1, Ordering::Relaxed) + 1 >= 4 {
                            stop.store(true, Ordering::Relaxed);
                        }
                    }
                    let sample = if i < 3 || (i >= n_fixed && i < n_fixed + 3) {
                        Some(trace)
                    } else {
                        None
                    };
                    agg.absorb(i, &res, cfg.fingerprints_out.is_some());
                    if res.violation.is_some() || sample.is_some() {
                        local.push(RunOut {
                            run: i,
                            res,
                            sample,
                            violation_trace,
                            original_trace,
                        });
                    }
                }
                outs.lock().unwrap().append(&mut local);
                aggs.lock().unwrap().push(agg);
            });
        }
    });

    let mut outs = outs.into_inner().unwrap();
    outs.sort_by_key(|o| o.run);
    let herrs = harness_errors.into_inner().unwrap();
    if !herrs.is_empty() {
        for h in &herrs {
            println!("HARNESS-ERROR property={id} {h}");
        }
        return 2;
    }

    // aggregate (sums and sets: independent of the order in which workers finished)
    let mut total_agg = Agg::default();
    for a in aggs.into_inner().unwrap() {
        total_agg.merge(a);
    }
    let stats = std::mem::take(&mut total_agg.stats);
    let fps = std::mem::take(&mut total_agg.fps);
    let nontrivial_fps = std::mem::take(&mut total_agg.nontrivial_fps);
    let cells = std::mem::take(&mut total_agg.cells);
    let states = std::mem::take(&mut total_agg.states);
    let panics = std::mem::take(&mut total_agg.panics);
    let evaluations = total_agg.evaluations;
    let mut samples: Vec<Value> = vec![];
    let mut fp_lines = String::new();
    for o in &outs {
        if let Some(s) = &o.sample
            && samples.len() < 3
            && (o.res.nontrivial || o.run >= n_fixed)
        {
            samples.push(s.clone());
        }
    }
    if cfg.fingerprints_out.is_some() {
        total_agg.fp_pairs.sort_unstable();
        for (run, f) in &total_agg.fp_pairs {
            fp_lines.push_str(&format!("{run} {f:016x}\n"));
        }
    }
    if samples.is_empty()
        && let Some(o) = outs.iter().find(|o| o.sample.is_some())
    {
        samples.push(o.sample.clone().unwrap());
    }
    if let Some(path) = &cfg.fingerprints_out {
        let _ = std::fs::write(path, fp_lines);
    }

    // violations
    let known = load_known_findings();
    let mut exit = 0;
    let mut n_violations = 0;
    let mut known_hits: BTreeSet<String> = BTreeSet::new();
    let mut n_nonrepro = 0u64;
    let replay_dir = format!("{}/replays", crate::verif_root());
    let _ = std::fs::create_dir_all(&replay_dir);
    for o in &outs {
        let (Some(v), Some(tr)) = (&o.res.violation, &o.violation_trace) else {
            continue;
        };
        // re-derive the detail from the minimised trace in a fresh process
        let path = format!(
            "{replay_dir}/{id}-{}-{}.json",
            cfg.verif_seed,
            if o.run < n_fixed {
                format!("fixed{}", o.run)
            } else {
                format!("{}", o.run - n_fixed)
            }
        );
        let mut tr = tr.clone();
        if let Some(obj) = tr.as_object_mut() {
            obj.insert("property".into(), json!(id));
            obj.insert("oracle".into(), json!(v.oracle));
        }
        std::fs::write(&path, serde_json::to_string_pretty(&tr).unwrap()).unwrap();
        let status = std::process::Command::new(std::env::current_exe().unwrap())
            .args(["replay", &path, "--quiet"])
            .output();
        let mut reproduced = match &status {
            Ok(out) => out.status.code() == Some(1),
            Err(_) => false,
        };
        let mut status = status;
        if !reproduced
            && let Some(orig) = &o.original_trace
        {
            // The minimiser re-executes candidates in the worker that found the violation. If the
            // system under test lets executions influence each other (process-wide state), a
            // shrunk trace may "fail" only there. The trace as generated is then validated
            // instead and, if it reproduces, reported unminimised.
            let mut t0 = orig.clone();
            if let Some(obj) = t0.as_object_mut() {
                obj.insert("property".into(), json!(id));
                obj.insert("oracle".into(), json!(v.oracle));
                obj.insert("detail".into(), json!(v.detail));
                obj.insert("verif_seed".into(), json!(cfg.verif_seed));
                obj.insert("unminimised".into(), json!("shrunk candidates did not reproduce in a fresh process"));
            }
            std::fs::write(&path, serde_json::to_string_pretty(&t0).unwrap()).unwrap();
            let st2 = std::process::Command::new(std::env::current_exe().unwrap())
                .args(["replay", &path, "--quiet"])
                .output();
            if let Ok(out) = &st2
                && out.status.code() == Some(1)
            {
                reproduced = true;
                status = st2;
            }
        }
        if !reproduced {
            // Not reported as a violation (a trace that does not replay proves nothing by itself);
            // it fails the check as a harness error only if no violation of this batch replays.
            println!(
                "NON-REPRODUCING property={id} oracle {} in run {} did not reproduce from {path} in a fresh process (state leaking between runs of one worker?): {}",
                v.oracle, o.run, v.detail.chars().take(400).collect::<String>()
            );
            n_nonrepro += 1;
            let _ = std::fs::remove_file(&path);
            continue;
        }
        // the replayed (minimised) detail decides whether this is a known finding
        let replay_detail = status
            .ok()
            .map(|o| String::from_utf8_lossy(&o.stdout).to_string())
            .unwrap_or_default();
        if let Some(k) = known.iter().find(|k| {
            k.property == id
                && k.oracle == v.oracle
                && (replay_detail.contains(&k.needle) || v.detail.contains(&k.needle))
        }) {
            known_hits.insert(k.text.clone());
            let _ = std::fs::remove_file(&path);
            continue;
        }
        n_violations += 1;
        if n_violations > 5 {
            let _ = std::fs::remove_file(&path);
            continue;
        }
        println!(
            "  oracle={} detail={}",
            v.oracle,
            tr["detail"].as_str().unwrap_or(&v.detail)
        );
        println!("VIOLATION property={id} replay={path}");
        if exit == 0 {
            exit = 1;
        }
    }
    for k in &known_hits {
        println!("KNOWN-FINDING: {k}");
    }
    if n_nonrepro > 0 && exit == 0 {
        println!("HARNESS-ERROR property={id} {n_nonrepro} violation(s) were observed but none replays from its trace in a fresh process");
        exit = 2;
    }

    let wall = t0.elapsed().as_secs_f64();
    let probes_at_zero: Vec<&str> = p
        .expected_probes()
        .into_iter()
        .filter(|k| stats.get(*k).copied().unwrap_or(0) == 0)
        .collect();
    println!(
        "nbsim property={id} done: runs={evaluations} distinct={} nontrivial-distinct={} cells={} states={} violations={n_violations} known={} sut_panics={} wall={wall:.1}s",
        fps.len(),
        nontrivial_fps.len(),
        cells.len(),
        states.len(),
        known_hits.len(),
        panics.values().sum::<u64>()
    );
    if !probes_at_zero.is_empty() {
        println!("  probes at zero: {probes_at_zero:?}");
    }

    if let Some(path) = &cfg.evidence_path {
        let mut coverage = json!({
            "evaluations": evaluations,
            "distinct_nontrivial": nontrivial_fps.len(),
            "distinct_runs": fps.len(),
            "rule": p.rule(),
            "samples": samples,
            "states": states.len(),
            "coverage_cells_hit": cells.len(),
            "counters": stats,
            "probes_at_zero": probes_at_zero,
            "runs_per_hour": if wall > 0.0 { (evaluations as f64 / wall * 3600.0) as u64 } else { 0 },
            "seeds_per_hour": if wall > 0.0 { (evaluations as f64 / wall * 3600.0) as u64 } else { 0 },
            "seed_range": [0, n_seeded],
            "workers": cfg.workers,
            "sut_panics": panics,
            "known_findings_hit": known_hits.iter().collect::<Vec<_>>(),
            "exhaustive": false,
        });
        if let (Some(c), Some(e)) = (coverage.as_object_mut(), p.extra_evidence(cfg.tier).as_object())
        {
            for (k, v) in e {
                c.insert(k.clone(), v.clone());
            }
        }
        let ev = json!({
            "property_id": id,
            "tier": cfg.tier.name(),
            "seed": cfg.verif_seed,
            "level": "exploration",
            "coverage": coverage,
            "assumptions": p.assumptions(),
            "wall_s": wall,
            "violations": n_violations,
        });
        if let Some(parent) = std::path::Path::new(path).parent() {
            let _ = std::fs::create_dir_all(parent);
        }
        std::fs::write(path, serde_json::to_string_pretty(&ev).unwrap()).unwrap();
    }
    exit
}

/// Replay one trace file. Exit 1 + VIOLATION line if the violation reproduces.
pub fn replay_file<P: Prop>(p: &P, path: &str, trace: &Value, quiet: bool) -> i32 {
    let mut w = p.new_worker();
    let r = p.exec(&mut w, trace);
    if let Some(h) = r.harness_error {
        println!("HARNESS-ERROR property={} {h}", p.id());
        return 2;
    }
    match r.violation {
        Some(v) => {
            println!("  oracle={} detail={}", v.oracle, v.detail);
            if !quiet {
                println!("VIOLATION property={} replay={path}", p.id());
            }
            1
        }
        None => {
            println!("replay of {path}: no violation (fingerprint {:016x})", r.fingerprint);
            0
        }
    }
}
