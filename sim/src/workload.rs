//! Type-aware workload generator shared by C06, C07 and C22.
//!
//! It keeps its own symbol table (what the *generator* believes exists), produces inputs of
//! 1–6 statements, optionally with one injected fault, and is told by the driver whether the
//! input succeeded (`feedback`), so that its beliefs follow the real session. The oracles never
//! use the generator's intentions, only observed results.

use std::collections::{BTreeMap, BTreeSet};

use crate::rng::Rng;

pub const NB: usize = 6; // Length, Time, Mass + up to 3 user base dimensions
pub type DimV = [i8; NB];
pub const SCALAR: DimV = [0; NB];

#[derive(Clone, Debug, PartialEq, Eq)]
pub enum Ty {
    Dim(DimV),
    Bool,
    Str,
    List(Box<Ty>),
    Func(Vec<Ty>, Box<Ty>),
    Struct(String),
}

#[derive(Clone, Debug)]
pub struct VarS {
    pub name: String,
    pub ty: Ty,
    /// known to be strictly positive (dimension types) / non-empty (lists)
    pub pos: bool,
    pub local: bool,
}

#[derive(Clone, Debug)]
pub struct FnS {
    pub name: String,
    pub params: Vec<Ty>,
    pub ret: Ty,
    /// polymorphic (inferred or `<T: Dim>`): not used as a function value
    pub generic: bool,
    /// `fn f<T: Dim>(x: T) -> T`
    pub identity_like: bool,
    pub ret_pos: bool,
}

#[derive(Clone, Debug)]
pub struct UnitS {
    pub name: String,
    pub dim: DimV,
    pub short: Option<String>,
    pub prefixes: bool,
}

#[derive(Clone, Debug)]
pub struct StructS {
    pub name: String,
    pub fields: Vec<(String, Ty)>,
}

#[derive(Clone, Debug)]
pub struct ModS {
    pub name: String,
    pub source: String,
    pub deps: Vec<String>,
    pub healthy: bool,
    pub exports: Sym,
}

/// The generator's beliefs about one session.
#[derive(Clone, Debug, Default)]
pub struct Sym {
    pub vars: Vec<VarS>,
    pub fns: Vec<FnS>,
    /// user base dimensions: (name, index into DimV)
    pub dims: Vec<(String, usize)>,
    /// named derived dimensions (name, value)
    pub named_dims: Vec<(String, DimV)>,
    pub units: Vec<UnitS>,
    pub structs: Vec<StructS>,
    pub imported: BTreeSet<String>,
    pub ans: Option<Ty>,
}

impl Sym {
    pub fn absorb(&mut self, other: &Sym) {
        for v in &other.vars {
            self.vars.retain(|x| x.name != v.name);
            self.vars.push(v.clone());
        }
        for f in &other.fns {
            self.fns.retain(|x| x.name != f.name);
            self.fns.push(f.clone());
        }
        for d in &other.dims {
            if !self.dims.iter().any(|x| x.0 == d.0) {
                self.dims.push(d.clone());
            }
        }
        for d in &other.named_dims {
            if !self.named_dims.iter().any(|x| x.0 == d.0) {
                self.named_dims.push(d.clone());
            }
        }
        for u in &other.units {
            if !self.units.iter().any(|x| x.name == u.name) {
                self.units.push(u.clone());
            }
        }
        for s in &other.structs {
            if !self.structs.iter().any(|x| x.name == s.name) {
                self.structs.push(s.clone());
            }
        }
    }
    pub fn defined_names(&self) -> Vec<(String, &'static str)> {
        let mut v = vec![];
        for x in &self.vars {
            if !x.local {
                v.push((x.name.clone(), "variable"));
            }
        }
        for x in &self.fns {
            v.push((x.name.clone(), "function"));
        }
        for x in &self.dims {
            v.push((x.0.clone(), "dimension"));
        }
        for x in &self.named_dims {
            v.push((x.0.clone(), "dimension"));
        }
        for x in &self.units {
            v.push((x.name.clone(), "unit"));
        }
        v
    }
}

#[derive(Clone, Debug, PartialEq, Eq)]
pub enum FaultKind {
    Parse,
    UnknownModule,
    ModuleUnavailable,
    BrokenModule,
    NameClash,
    TypeError,
    RuntimeError,
    VmFault,
}

impl FaultKind {
    pub fn name(&self) -> &'static str {
        match self {
            FaultKind::Parse => "parse",
            FaultKind::UnknownModule => "unknown-module",
            FaultKind::ModuleUnavailable => "module-unavailable",
            FaultKind::BrokenModule => "broken-module",
            FaultKind::NameClash => "name-clash",
            FaultKind::TypeError => "type-error",
            FaultKind::RuntimeError => "runtime-error",
            FaultKind::VmFault => "vm-fault",
        }
    }
    pub const ALL: [FaultKind; 8] = [
        FaultKind::Parse,
        FaultKind::UnknownModule,
        FaultKind::ModuleUnavailable,
        FaultKind::BrokenModule,
        FaultKind::NameClash,
        FaultKind::TypeError,
        FaultKind::RuntimeError,
        FaultKind::VmFault,
    ];
}

/// One generated input with everything the driver needs to execute and record it.
#[derive(Clone, Debug, Default)]
pub struct GenInput {
    pub text: String,
    pub n_statements: usize,
    pub fault: Option<FaultKind>,
    /// 0-based index of the faulty statement
    pub fault_pos: Option<usize>,
    /// module names made unavailable for the duration of this input
    pub unavailable: Vec<String>,
    /// synthetic modules to (re)register before this input: (name, source)
    pub set_modules: Vec<(String, String)>,
    /// what the successful prefix contained
    pub contains: BTreeSet<&'static str>,
    /// names the input would define (kind, name) — for the independent name-set model
    pub defines: Vec<(String, &'static str)>,
    /// extra probe expressions that become meaningful if this input succeeds
    pub probes: Vec<String>,
    /// features for the "non-trivial" rule of C07
    pub features: BTreeSet<&'static str>,
    /// heal: module names that are made available / repaired again by this step
    pub heals: Vec<String>,
}

#[derive(Clone, Debug)]
pub struct GenCfg {
    pub weights: Vec<u32>,
    pub max_statements: usize,
    pub fault_rate: f64,
    pub fault_kinds: Vec<FaultKind>,
    pub light_base: bool,
    pub allow_imports: bool,
    pub real_modules: Vec<String>,
    /// synthetic `sim::*` modules may be generated (not possible when a real binary is driven)
    pub synthetic_modules: bool,
    /// currency identifiers may be generated (C06's currency-on-demand sub-batch only)
    pub currency: bool,
    /// comment lines / trailing comments / unicode operator spellings may be generated
    pub trivia: bool,
    /// string literals that span physical lines (with blanks next to the line break) may be
    /// generated; off where inputs are handled line by line (C22)
    pub multiline_strings: bool,
}

pub const N_KINDS: usize = 24;

pub struct Gen {
    pub rng: Rng,
    pub sym: Sym,
    saved: Option<Sym>,
    pub cfg: GenCfg,
    next_id: u32,
    pub modules: BTreeMap<String, ModS>,
    /// things recent failing inputs touched: (kind, name) — biases follow-up traffic
    pub recent_failed: Vec<(String, &'static str)>,
    /// broken modules that can be repaired later: name -> healthy source + exports
    repairable: BTreeMap<String, (String, Sym)>,
    pending_imports: Vec<String>,
    marker: u32,
    pub with_markers: bool,
    /// distinguishes synthetic modules of different generators that feed one importer
    pub module_tag: String,
    /// three letters drawn per run and appended to every generated name: names of different
    /// runs never coincide, so state that leaks between the runs of one worker (a process-wide
    /// or thread-local table keyed by name) cannot make a violation depend on earlier runs —
    /// what a run reports is reproducible from its own trace
    pub name_tag: String,
    /// the statement just generated is expected to fail (re-import of a still broken module)
    expect_fail: Option<FaultKind>,
}

fn dim_is_scalar(d: &DimV) -> bool {
    d.iter().all(|x| *x == 0)
}

fn dim_add(a: &DimV, b: &DimV) -> DimV {
    let mut r = [0i8; NB];
    for i in 0..NB {
        r[i] = a[i] + b[i];
    }
    r
}

fn dim_sub(a: &DimV, b: &DimV) -> DimV {
    let mut r = [0i8; NB];
    for i in 0..NB {
        r[i] = a[i] - b[i];
    }
    r
}

fn dim_small(d: &DimV) -> bool {
    d.iter().all(|x| x.abs() <= 3)
}

const BASE_DIM_NAMES: [&str; 3] = ["Length", "Time", "Mass"];
const BASE_UNIT_NAMES: [&str; 3] = ["m", "s", "kg"];

impl Gen {
    pub fn new(mut rng: Rng, cfg: GenCfg) -> Self {
        let name_tag: String = (0..3).map(|_| (b'a' + rng.below(26) as u8) as char).collect();
        Gen {
            name_tag,
            rng,
            sym: Sym::default(),
            saved: None,
            cfg,
            next_id: 0,
            modules: BTreeMap::new(),
            recent_failed: vec![],
            repairable: BTreeMap::new(),
            pending_imports: vec![],
            marker: 0,
            with_markers: false,
            module_tag: String::new(),
            expect_fail: None,
        }
    }

    /// Swarm configuration: every run draws its own statement mix, sizes and fault mix.
    pub fn swarm_cfg(rng: &mut Rng, with_faults: bool, real_modules: Vec<String>) -> GenCfg {
        let mut weights: Vec<u32> = (0..N_KINDS)
            .map(|_| {
                if rng.chance(0.25) {
                    0
                } else {
                    rng.range(1, 8) as u32
                }
            })
            .collect();
        weights[0] = weights[0].max(2); // plain let always possible
        weights[16] = weights[16].max(1); // expression statements
        let mut fault_kinds: Vec<FaultKind> = FaultKind::ALL
            .iter()
            .filter(|_| rng.chance(0.6))
            .cloned()
            .collect();
        if fault_kinds.is_empty() {
            fault_kinds.push(rng.pick(&FaultKind::ALL).clone());
        }
        GenCfg {
            weights,
            max_statements: rng.range(1, 6) as usize,
            fault_rate: if with_faults {
                0.05 + rng.unit() * 0.35
            } else {
                0.0
            },
            fault_kinds,
            light_base: rng.chance(0.25),
            allow_imports: rng.chance(0.8),
            real_modules,
            synthetic_modules: true,
            currency: false,
            trivia: rng.chance(0.3),
            multiline_strings: rng.chance(0.3),
        }
    }

    pub fn next_id_value(&self) -> u32 {
        self.next_id
    }

    pub fn set_id_offset(&mut self, off: u32) {
        self.next_id = self.next_id.max(off);
    }

    fn fresh(&mut self, prefix: &str) -> String {
        self.next_id += 1;
        format!("{prefix}q{}{}", self.next_id, self.name_tag)
    }

    // ---------------------------------------------------------------- dimensions and units

    fn dim_type_text(&self, d: &DimV) -> String {
        if dim_is_scalar(d) {
            return "Scalar".into();
        }
        // a named derived dimension, sometimes
        let mut parts = vec![];
        for i in 0..NB {
            if d[i] == 0 {
                continue;
            }
            let name = if i < 3 {
                BASE_DIM_NAMES[i].to_string()
            } else {
                match self.sym.dims.iter().find(|x| x.1 == i) {
                    Some(x) => x.0.clone(),
                    None => continue,
                }
            };
            if d[i] == 1 {
                parts.push(name);
            } else {
                parts.push(format!("{name}^({})", d[i]));
            }
        }
        parts.join(" * ")
    }

    pub fn ty_text(&self, t: &Ty) -> String {
        match t {
            Ty::Dim(d) => self.dim_type_text(d),
            Ty::Bool => "Bool".into(),
            Ty::Str => "String".into(),
            Ty::List(e) => format!("List<{}>", self.ty_text(e)),
            Ty::Func(ps, r) => format!(
                "Fn[({}) -> {}]",
                ps.iter().map(|p| self.ty_text(p)).collect::<Vec<_>>().join(", "),
                self.ty_text(r)
            ),
            Ty::Struct(n) => n.clone(),
        }
    }

    fn base_unit_name(&self, i: usize) -> Option<String> {
        if i < 3 {
            Some(BASE_UNIT_NAMES[i].to_string())
        } else {
            // the base unit of user dimension i
            let mut want = [0i8; NB];
            want[i] = 1;
            self.sym
                .units
                .iter()
                .find(|u| u.dim == want)
                .map(|u| u.name.clone())
        }
    }

    fn dim_available(&self, d: &DimV) -> bool {
        (0..NB).all(|i| d[i] == 0 || self.base_unit_name(i).is_some())
    }

    /// A unit expression of dimension `d` (no magnitude).
    fn unit_text(&mut self, d: &DimV) -> String {
        // single-dimension shortcuts with some variety
        let mut single = None;
        for i in 0..NB {
            if d[i] != 0 {
                if single.is_some() {
                    single = None;
                    break;
                }
                single = Some(i);
            }
        }
        if let Some(i) = single
            && d[i] == 1
        {
            let mut pool: Vec<String> = match i {
                0 => vec!["m".into(), "cm".into(), "km".into(), "mm".into(), "meter".into()],
                1 => vec!["s".into(), "ms".into(), "min".into(), "second".into()],
                2 => vec!["kg".into(), "g".into(), "gram".into()],
                _ => vec![],
            };
            for u in &self.sym.units {
                if &u.dim == d {
                    pool.push(u.name.clone());
                    if let Some(s) = &u.short {
                        pool.push(s.clone());
                    }
                    if u.prefixes {
                        pool.push(format!("kilo{}", u.name));
                        if let Some(s) = &u.short {
                            pool.push(format!("m{s}"));
                        }
                    }
                }
            }
            if !pool.is_empty() {
                return self.rng.pick(&pool).clone();
            }
        }
        // a user unit of exactly this dimension
        let exact: Vec<String> = self
            .sym
            .units
            .iter()
            .filter(|u| &u.dim == d)
            .map(|u| u.name.clone())
            .collect();
        if !exact.is_empty() && self.rng.chance(0.4) {
            return self.rng.pick(&exact).clone();
        }
        let mut parts = vec![];
        for i in 0..NB {
            if d[i] == 0 {
                continue;
            }
            let Some(u) = self.base_unit_name(i) else {
                continue;
            };
            if d[i] == 1 {
                parts.push(u);
            } else {
                parts.push(format!("{u}^({})", d[i]));
            }
        }
        parts.join("*")
    }

    fn magnitude(&mut self) -> String {
        match self.rng.below(10) {
            0..=5 => format!("{}", self.rng.range(1, 9)),
            6..=7 => format!("{}.5", self.rng.range(0, 9)),
            8 => format!("{}", self.rng.range(10, 120)),
            _ => format!("0.{}", self.rng.range(1, 9)),
        }
    }

    fn literal(&mut self, d: &DimV) -> String {
        let m = self.magnitude();
        if dim_is_scalar(d) {
            m
        } else {
            let u = self.unit_text(d);
            if u.contains('*') || u.contains('^') {
                format!("({m} * {u})")
            } else if self.rng.chance(0.7) {
                format!("{m} {u}")
            } else {
                format!("({m} * {u})")
            }
        }
    }

    fn random_dim(&mut self) -> DimV {
        let mut pool: Vec<DimV> = vec![
            SCALAR,
            SCALAR,
            [1, 0, 0, 0, 0, 0],
            [1, 0, 0, 0, 0, 0],
            [0, 1, 0, 0, 0, 0],
            [0, 0, 1, 0, 0, 0],
            [1, -1, 0, 0, 0, 0],
            [2, 0, 0, 0, 0, 0],
        ];
        for (_, i) in &self.sym.dims {
            let mut d = [0i8; NB];
            d[*i] = 1;
            if self.dim_available(&d) {
                pool.push(d);
                pool.push(d);
            }
        }
        for v in &self.sym.vars {
            if let Ty::Dim(d) = &v.ty
                && self.dim_available(d)
                && dim_small(d)
            {
                pool.push(*d);
            }
        }
        *self.rng.pick(&pool)
    }

    fn random_ty(&mut self, depth: u32) -> Ty {
        let r = self.rng.below(100);
        if r < 62 || depth == 0 {
            Ty::Dim(self.random_dim())
        } else if r < 70 {
            Ty::Bool
        } else if r < 78 {
            Ty::Str
        } else if r < 88 {
            let e = self.random_ty(0);
            Ty::List(Box::new(e))
        } else if r < 94 && !self.sym.structs.is_empty() {
            Ty::Struct(self.rng.pick(&self.sym.structs).name.clone())
        } else {
            let fs: Vec<&FnS> = self.sym.fns.iter().filter(|f| !f.generic).collect();
            if fs.is_empty() {
                Ty::Dim(self.random_dim())
            } else {
                let f = *self.rng.pick(&fs);
                Ty::Func(f.params.clone(), Box::new(f.ret.clone()))
            }
        }
    }

    // ---------------------------------------------------------------- expressions

    /// Expression of type `ty`. `pos`: must be strictly positive (dimension types).
    pub fn expr(&mut self, ty: &Ty, depth: u32, pos: bool) -> String {
        match ty {
            Ty::Dim(d) => self.expr_dim(d, depth, pos),
            Ty::Bool => self.expr_bool(depth),
            Ty::Str => self.expr_str(depth),
            Ty::List(e) => self.expr_list(e, depth, pos),
            Ty::Func(ps, r) => self.expr_func(ps, r),
            Ty::Struct(n) => self.expr_struct(n, depth),
        }
    }

    fn vars_of(&self, ty: &Ty, pos: bool) -> Vec<String> {
        self.sym
            .vars
            .iter()
            .filter(|v| &v.ty == ty && (!pos || v.pos))
            .map(|v| v.name.clone())
            .collect()
    }

    fn expr_dim(&mut self, d: &DimV, depth: u32, pos: bool) -> String {
        let ty = Ty::Dim(*d);
        let leaf = depth == 0 || self.rng.chance(0.3);
        if leaf {
            let vs = self.vars_of(&ty, pos);
            if !vs.is_empty() && self.rng.chance(0.6) {
                return self.rng.pick(&vs).clone();
            }
            return self.literal(d);
        }
        let dp = depth - 1;
        for _ in 0..4 {
            match self.rng.below(16) {
                0 | 1 => {
                    return format!(
                        "({} + {})",
                        self.expr_dim(d, dp, pos),
                        self.expr_dim(d, dp, pos)
                    );
                }
                2 if !pos => {
                    return format!(
                        "({} - {})",
                        self.expr_dim(d, dp, false),
                        self.expr_dim(d, dp, false)
                    );
                }
                3 => {
                    return format!(
                        "({} * {})",
                        self.expr_dim(d, dp, pos),
                        self.expr_dim(&SCALAR, dp, pos)
                    );
                }
                4 => {
                    // split d = d1 + d2
                    let d1 = self.random_dim();
                    let d2 = dim_sub(d, &d1);
                    if dim_small(&d2) && self.dim_available(&d2) && self.dim_available(&d1) {
                        return format!(
                            "({} * {})",
                            self.expr_dim(&d1, dp, pos),
                            self.expr_dim(&d2, dp, pos)
                        );
                    }
                }
                5 => {
                    let d2 = self.random_dim();
                    let d1 = dim_add(d, &d2);
                    if dim_small(&d1) && self.dim_available(&d2) && self.dim_available(&d1) {
                        return format!(
                            "({} / {})",
                            self.expr_dim(&d1, dp, pos),
                            self.expr_dim(&d2, dp, true)
                        );
                    }
                }
                6 => {
                    if d.iter().all(|x| x % 2 == 0) {
                        let mut h = *d;
                        for x in h.iter_mut() {
                            *x /= 2;
                        }
                        return format!("({})^2", self.expr_dim(&h, dp, pos));
                    }
                }
                7 if !pos => return format!("-({})", self.expr_dim(d, dp, false)),
                8 => {
                    let c = self.expr_bool(dp);
                    return format!(
                        "(if {c} then {} else {})",
                        self.expr_dim(d, dp, pos),
                        self.expr_dim(d, dp, pos)
                    );
                }
                9 | 10 => {
                    // call of a function returning this type
                    let fs: Vec<FnS> = self
                        .sym
                        .fns
                        .iter()
                        .filter(|f| f.ret == ty && (!pos || f.ret_pos) && !f.identity_like)
                        .cloned()
                        .collect();
                    if !fs.is_empty() {
                        let f = self.rng.pick(&fs).clone();
                        let args: Vec<String> =
                            f.params.iter().map(|p| self.expr(p, dp, f.ret_pos)).collect();
                        return format!("{}({})", f.name, args.join(", "));
                    }
                    // identity-like generic function
                    let gs: Vec<FnS> = self
                        .sym
                        .fns
                        .iter()
                        .filter(|f| f.identity_like)
                        .cloned()
                        .collect();
                    if !gs.is_empty() {
                        let g = self.rng.pick(&gs).clone();
                        return format!("{}({})", g.name, self.expr_dim(d, dp, pos));
                    }
                }
                11 => {
                    if !dim_is_scalar(d) {
                        let u = self.unit_text(d);
                        if !u.contains('*') && !u.contains('^') {
                            return format!("({} -> {u})", self.expr_dim(d, dp, pos));
                        }
                    }
                }
                12 => {
                    // struct field access
                    let mut cands = vec![];
                    for v in &self.sym.vars {
                        if let Ty::Struct(sn) = &v.ty
                            && let Some(s) = self.sym.structs.iter().find(|s| &s.name == sn)
                        {
                            for (fname, fty) in &s.fields {
                                if fty == &ty && !pos {
                                    cands.push(format!("{}.{fname}", v.name));
                                }
                            }
                        }
                    }
                    if !cands.is_empty() {
                        return self.rng.pick(&cands).clone();
                    }
                }
                13 => {
                    // list observers
                    let lt = Ty::List(Box::new(ty.clone()));
                    let ls = self.vars_of(&lt, true);
                    if !ls.is_empty() && !pos {
                        let l = self.rng.pick(&ls).clone();
                        return if self.rng.chance(0.5) {
                            format!("head({l})")
                        } else {
                            format!("sum({l})")
                        };
                    }
                    if dim_is_scalar(d) && !pos {
                        let any: Vec<String> = self
                            .sym
                            .vars
                            .iter()
                            .filter(|v| matches!(v.ty, Ty::List(_)))
                            .map(|v| v.name.clone())
                            .collect();
                        if !any.is_empty() {
                            return format!("len({})", self.rng.pick(&any));
                        }
                    }
                }
                14 => {
                    // call through a function value
                    let cands: Vec<VarS> = self
                        .sym
                        .vars
                        .iter()
                        .filter(|v| matches!(&v.ty, Ty::Func(_, r) if **r == ty))
                        .cloned()
                        .collect();
                    if !cands.is_empty() && !pos {
                        let v = self.rng.pick(&cands).clone();
                        if let Ty::Func(ps, _) = &v.ty {
                            let args: Vec<String> =
                                ps.iter().map(|p| self.expr(p, dp, false)).collect();
                            return format!("{}({})", v.name, args.join(", "));
                        }
                    }
                }
                _ => {
                    if !pos {
                        return format!("abs({})", self.expr_dim(d, dp, false));
                    }
                }
            }
        }
        self.literal(d)
    }

    fn expr_bool(&mut self, depth: u32) -> String {
        if depth == 0 || self.rng.chance(0.3) {
            let vs = self.vars_of(&Ty::Bool, false);
            if !vs.is_empty() && self.rng.chance(0.5) {
                return self.rng.pick(&vs).clone();
            }
            return if self.rng.chance(0.5) { "true" } else { "false" }.into();
        }
        let dp = depth - 1;
        match self.rng.below(6) {
            0 | 1 => {
                let d = self.random_dim();
                let op = *self.rng.pick(&["<", ">", "<=", ">=", "==", "!="]);
                format!(
                    "({} {op} {})",
                    self.expr_dim(&d, dp, false),
                    self.expr_dim(&d, dp, false)
                )
            }
            2 => format!("({} && {})", self.expr_bool(dp), self.expr_bool(dp)),
            3 => format!("({} || {})", self.expr_bool(dp), self.expr_bool(dp)),
            4 => format!("!({})", self.expr_bool(dp)),
            _ => {
                let s = self.expr_str(dp);
                let t = self.expr_str(dp);
                format!("({s} == {t})")
            }
        }
    }

    fn expr_str(&mut self, depth: u32) -> String {
        let vs = self.vars_of(&Ty::Str, false);
        if !vs.is_empty() && self.rng.chance(0.3) {
            return self.rng.pick(&vs).clone();
        }
        if self.cfg.multiline_strings && self.rng.chance(0.2) {
            // a literal that spans two physical lines, with blanks on both sides of the break:
            // every character of it, blanks included, belongs to the value
            let pad1 = " ".repeat(self.rng.below(3));
            let pad2 = " ".repeat(self.rng.below(4));
            return format!("\"ml{}{pad1}\n{pad2}z{}\"", self.rng.range(0, 99), self.rng.range(0, 9));
        }
        if depth == 0 || self.rng.chance(0.4) {
            return format!("\"s{}\"", self.rng.range(0, 99));
        }
        let d = self.random_dim();
        let e = self.expr_dim(&d, depth - 1, false);
        // no braces or quotes can appear in e (no nested strings inside interpolation)
        if e.contains('"') {
            return format!("\"t{}\"", self.rng.range(0, 99));
        }
        match self.rng.below(3) {
            0 => format!("\"v={{{e}}}\""),
            1 => format!("\"{{{e}}} and {{{}}}\"", self.literal(&d)),
            _ => format!("\"x{} {{{e}}} y\"", self.rng.range(0, 9)),
        }
    }

    fn expr_list(&mut self, elem: &Ty, depth: u32, nonempty: bool) -> String {
        let lt = Ty::List(Box::new(elem.clone()));
        let vs = self.vars_of(&lt, nonempty);
        if !vs.is_empty() && self.rng.chance(0.35) {
            return self.rng.pick(&vs).clone();
        }
        let dp = depth.saturating_sub(1);
        if depth > 0 {
            match self.rng.below(8) {
                0 => {
                    return format!(
                        "cons({}, {})",
                        self.expr(elem, dp, false),
                        self.expr_list(elem, dp, false)
                    );
                }
                1 => {
                    return format!(
                        "cons_end({}, {})",
                        self.expr(elem, dp, false),
                        self.expr_list(elem, dp, false)
                    );
                }
                2 if !nonempty => {
                    return format!("tail({})", self.expr_list(elem, dp, true));
                }
                3 => {
                    return format!(
                        "concat({}, {})",
                        self.expr_list(elem, dp, nonempty),
                        self.expr_list(elem, dp, false)
                    );
                }
                4 => {
                    // map through a function value or a named function
                    let fs: Vec<FnS> = self
                        .sym
                        .fns
                        .iter()
                        .filter(|f| !f.generic && f.params.len() == 1 && &f.ret == elem)
                        .cloned()
                        .collect();
                    if !fs.is_empty() {
                        let f = self.rng.pick(&fs).clone();
                        let src = self.expr_list(&f.params[0], dp, nonempty);
                        return format!("map({}, {src})", f.name);
                    }
                }
                5 => return format!("reverse({})", self.expr_list(elem, dp, nonempty)),
                _ => {}
            }
        }
        let n = if nonempty {
            self.rng.range(1, 4)
        } else {
            self.rng.range(0, 4)
        };
        if n == 0 {
            // an empty literal needs a type from context; keep it typed through cons/tail
            let e = self.expr(elem, dp, false);
            return format!("tail([{e}])");
        }
        let items: Vec<String> = (0..n).map(|_| self.expr(elem, dp, false)).collect();
        format!("[{}]", items.join(", "))
    }

    fn expr_func(&mut self, ps: &[Ty], r: &Ty) -> String {
        let ty = Ty::Func(ps.to_vec(), Box::new(r.clone()));
        let mut cands = self.vars_of(&ty, false);
        for f in &self.sym.fns {
            if !f.generic && f.params == ps && &f.ret == r {
                cands.push(f.name.clone());
            }
        }
        if cands.is_empty() {
            // no function of this type exists (any more): the statement is regenerated
            return "__NOFN__".into();
        }
        self.rng.pick(&cands).clone()
    }

    fn expr_struct(&mut self, name: &str, depth: u32) -> String {
        let ty = Ty::Struct(name.to_string());
        let vs = self.vars_of(&ty, false);
        if !vs.is_empty() && self.rng.chance(0.4) {
            return self.rng.pick(&vs).clone();
        }
        let Some(s) = self.sym.structs.iter().find(|s| s.name == name).cloned() else {
            return "0".into();
        };
        let mut fields: Vec<String> = s
            .fields
            .iter()
            .map(|(f, t)| format!("{f}: {}", self.expr(t, depth.saturating_sub(1), false)))
            .collect();
        self.rng.shuffle(&mut fields);
        format!("{} {{ {} }}", s.name, fields.join(", "))
    }

    /// A closed literal of the given type (no identifiers other than prelude units).
    fn literal_of(&mut self, t: &Ty) -> Option<String> {
        Some(match t {
            Ty::Dim(d) => {
                // only base SI units: user units may not exist where the probe is evaluated
                if d[3..].iter().any(|x| *x != 0) {
                    return None;
                }
                let m = self.rng.range(1, 9);
                if dim_is_scalar(d) {
                    format!("{m}")
                } else {
                    let mut parts = vec![];
                    for i in 0..3 {
                        if d[i] != 0 {
                            parts.push(format!("{}^({})", BASE_UNIT_NAMES[i], d[i]));
                        }
                    }
                    format!("({m} * {})", parts.join("*"))
                }
            }
            Ty::Bool => "true".into(),
            Ty::Str => "\"lit\"".into(),
            Ty::List(e) => format!("[{}]", self.literal_of(e)?),
            Ty::Func(..) | Ty::Struct(_) => return None,
        })
    }

    fn decorators(&mut self) -> String {
        let mut d = String::new();
        if self.rng.chance(0.12) {
            d.push_str(&format!("@name(\"N{}\")\n", self.rng.range(0, 99)));
        }
        if self.rng.chance(0.08) {
            d.push_str(&format!("@url(\"https://example.com/{}\")\n", self.rng.range(0, 99)));
        }
        if self.rng.chance(0.1) {
            d.push_str(&format!("@description(\"D{} text\")\n", self.rng.range(0, 99)));
        }
        d
    }

    // ---------------------------------------------------------------- statements

    fn record_var(&mut self, name: &str, ty: Ty, pos: bool, gi: &mut GenInput) {
        self.sym.vars.retain(|v| v.name != name);
        self.sym.vars.push(VarS {
            name: name.to_string(),
            ty,
            pos,
            local: false,
        });
        gi.defines.push((name.to_string(), "variable"));
    }

    fn existing_or_fresh_var(&mut self, redefine: bool) -> (String, bool) {
        let globals: Vec<String> = self
            .sym
            .vars
            .iter()
            .filter(|v| !v.local && v.name.starts_with("vq"))
            .map(|v| v.name.clone())
            .collect();
        if redefine && !globals.is_empty() {
            (self.rng.pick(&globals).clone(), true)
        } else {
            (self.fresh("v"), false)
        }
    }

    /// `statement`, regenerated when it needed a function value that does not exist.
    fn statement_checked(&mut self, k: usize, gi: &mut GenInput) -> String {
        for attempt in 0..4 {
            let saved = self.sym.clone();
            let mut g2 = GenInput::default();
            let kk = if attempt < 2 { k } else { 0 };
            let s = self.statement(kk, &mut g2);
            if !s.contains("__NOFN__") {
                gi.contains.extend(g2.contains.iter());
                gi.defines.extend(g2.defines);
                gi.set_modules.extend(g2.set_modules);
                gi.features.extend(g2.features.iter());
                gi.probes.extend(g2.probes);
                gi.unavailable.extend(g2.unavailable);
                return s;
            }
            self.sym = saved;
        }
        let name = self.fresh("v");
        self.record_var(&name, Ty::Dim(SCALAR), true, gi);
        format!("let {name} = {}", self.rng.range(1, 9))
    }

    /// Generate one statement of kind `k` (may fall back to a plain `let`).
    fn statement(&mut self, k: usize, gi: &mut GenInput) -> String {
        let depth = self.rng.range(0, 3) as u32;
        match k {
            // ---- variables
            0 | 1 | 20 => {
                let redefine = k == 20;
                let (name, re) = self.existing_or_fresh_var(redefine);
                if re {
                    gi.features.insert("redefinition");
                }
                let ty = self.random_ty(1);
                let pos = self.rng.chance(0.5);
                let e = self.expr(&ty, depth, pos);
                let is_dim = matches!(ty, Ty::Dim(_));
                let is_list = matches!(ty, Ty::List(_));
                let deco = self.decorators();
                let text = if k == 1 && !matches!(ty, Ty::Func(..)) {
                    format!("{deco}let {name}: {} = {e}", self.ty_text(&ty))
                } else {
                    format!("{deco}let {name} = {e}")
                };
                if matches!(ty, Ty::Func(..)) {
                    gi.features.insert("function-value");
                }
                gi.contains.insert("let");
                let p = (is_dim && pos) || (is_list && pos);
                self.record_var(&name, ty, p, gi);
                text
            }
            2 => {
                let name = self.fresh("v");
                let alias = self.fresh("v");
                let d = self.random_dim();
                let e = self.expr_dim(&d, depth, true);
                gi.contains.insert("let");
                self.record_var(&name, Ty::Dim(d), true, gi);
                self.record_var(&alias, Ty::Dim(d), true, gi);
                format!("@aliases({alias})\nlet {name} = {e}")
            }
            // ---- functions
            3 | 4 | 6 | 21 => {
                let redefine = k == 21;
                let existing: Vec<String> = self
                    .sym
                    .fns
                    .iter()
                    .filter(|f| f.name.starts_with("fq"))
                    .map(|f| f.name.clone())
                    .collect();
                let name = if redefine && !existing.is_empty() {
                    gi.features.insert("redefinition");
                    gi.features.insert("fn-redefinition");
                    self.rng.pick(&existing).clone()
                } else {
                    self.fresh("f")
                };
                let np = self.rng.range(1, 3) as usize;
                let params: Vec<Ty> = (0..np).map(|_| self.random_ty(1)).collect();
                let ret = if self.rng.chance(0.8) {
                    Ty::Dim(self.random_dim())
                } else {
                    self.random_ty(0)
                };
                let pnames = ["pa", "pb", "pc"];
                let saved_vars = self.sym.vars.clone();
                // parameters shadow everything of the same name
                for (i, p) in params.iter().enumerate() {
                    self.sym.vars.retain(|v| v.name != pnames[i]);
                    self.sym.vars.push(VarS {
                        name: pnames[i].to_string(),
                        ty: p.clone(),
                        pos: false,
                        local: true,
                    });
                }
                let mut where_clause = String::new();
                if k == 6 {
                    let d = self.random_dim();
                    let we = self.expr_dim(&d, 1, true);
                    self.sym.vars.push(VarS {
                        name: "wa".into(),
                        ty: Ty::Dim(d),
                        pos: true,
                        local: true,
                    });
                    where_clause = if self.rng.chance(0.3) {
                        format!(" where wa = {we} and wb = {}", self.rng.range(1, 9))
                    } else {
                        format!(" where wa = {we}")
                    };
                }
                // function bodies must not call the function being (re)defined (self reference
                // as a value in a first definition is a known single-input crash, DESIGN §6)
                let hidden: Vec<FnS> = self.sym.fns.iter().filter(|f| f.name == name).cloned().collect();
                self.sym.fns.retain(|f| f.name != name);
                let body = self.expr(&ret, depth.max(1), false);
                self.sym.fns.extend(hidden);
                self.sym.vars = saved_vars;
                let annotated = k != 4;
                let ps: Vec<String> = params
                    .iter()
                    .enumerate()
                    .map(|(i, p)| {
                        if annotated {
                            format!("{}: {}", pnames[i], self.ty_text(p))
                        } else {
                            pnames[i].to_string()
                        }
                    })
                    .collect();
                let deco = self.decorators();
                let text = if annotated {
                    format!(
                        "{deco}fn {name}({}) -> {} = {body}{where_clause}",
                        ps.join(", "),
                        self.ty_text(&ret)
                    )
                } else {
                    format!("{deco}fn {name}({}) = {body}{where_clause}", ps.join(", "))
                };
                gi.contains.insert("fn");
                gi.defines.push((name.clone(), "function"));
                self.sym.fns.retain(|f| f.name != name);
                self.sym.fns.push(FnS {
                    name,
                    params,
                    ret,
                    generic: !annotated,
                    identity_like: false,
                    ret_pos: false,
                });
                text
            }
            5 => {
                let name = self.fresh("f");
                let body = *self.rng.pick(&["pa + pa", "pa * 2", "pa", "(pa - pa) + pa", "abs(pa)"]);
                gi.contains.insert("fn");
                gi.defines.push((name.clone(), "function"));
                self.sym.fns.push(FnS {
                    name: name.clone(),
                    params: vec![],
                    ret: Ty::Bool,
                    generic: true,
                    identity_like: true,
                    ret_pos: false,
                });
                format!("fn {name}<T: Dim>(pa: T) -> T = {body}")
            }
            7 => {
                let name = self.fresh("f");
                gi.contains.insert("fn");
                gi.defines.push((name.clone(), "function"));
                let probe_n = self.rng.range(0, 12);
                gi.probes.push(format!("{name}({probe_n})"));
                self.sym.fns.push(FnS {
                    name: name.clone(),
                    params: vec![Ty::Dim(SCALAR)],
                    ret: Ty::Dim(SCALAR),
                    generic: false,
                    identity_like: false,
                    ret_pos: false,
                });
                let step = self.rng.range(1, 3);
                format!(
                    "fn {name}(pa: Scalar) -> Scalar = if pa <= 0 then {} else {step} + {name}(pa - 1)",
                    self.rng.range(0, 5)
                )
            }
            8 => {
                // function value stored in a variable / list / struct field
                let fs: Vec<FnS> = self.sym.fns.iter().filter(|f| !f.generic).cloned().collect();
                if fs.is_empty() {
                    return self.statement(3, gi);
                }
                let f = self.rng.pick(&fs).clone();
                let fty = Ty::Func(f.params.clone(), Box::new(f.ret.clone()));
                let name = self.fresh("v");
                gi.contains.insert("let");
                gi.features.insert("function-value");
                if self.rng.chance(0.7) {
                    self.record_var(&name, fty, false, gi);
                    format!("let {name} = {}", f.name)
                } else {
                    let others: Vec<String> = self
                        .sym
                        .fns
                        .iter()
                        .filter(|g| !g.generic && g.params == f.params && g.ret == f.ret)
                        .map(|g| g.name.clone())
                        .collect();
                    let second = self.rng.pick(&others).clone();
                    self.record_var(&name, Ty::List(Box::new(fty)), true, gi);
                    format!("let {name} = [{}, {second}]", f.name)
                }
            }
            // ---- dimensions and units
            9 => {
                if self.sym.dims.len() >= 3 {
                    return self.statement(11, gi);
                }
                let name = format!("D{}", self.fresh(""));
                let idx = 3 + self.sym.dims.len();
                self.sym.dims.push((name.clone(), idx));
                gi.contains.insert("dimension");
                gi.defines.push((name.clone(), "dimension"));
                // a base unit is defined together with it half of the time
                if self.rng.chance(0.6) {
                    let u = self.fresh("u");
                    let mut d = [0i8; NB];
                    d[idx] = 1;
                    self.sym.units.push(UnitS {
                        name: u.clone(),
                        dim: d,
                        short: None,
                        prefixes: false,
                    });
                    gi.contains.insert("unit");
                    gi.defines.push((u.clone(), "unit"));
                    format!("dimension {name}\nunit {u}: {name}")
                } else {
                    format!("dimension {name}")
                }
            }
            10 => {
                // base unit for a user dimension that has none yet
                let missing: Vec<(String, usize)> = self
                    .sym
                    .dims
                    .iter()
                    .filter(|(_, i)| self.base_unit_name(*i).is_none())
                    .cloned()
                    .collect();
                if missing.is_empty() {
                    return self.statement(11, gi);
                }
                let (dn, idx) = self.rng.pick(&missing).clone();
                let u = self.fresh("u");
                let mut d = [0i8; NB];
                d[idx] = 1;
                self.sym.units.push(UnitS {
                    name: u.clone(),
                    dim: d,
                    short: None,
                    prefixes: false,
                });
                gi.contains.insert("unit");
                gi.defines.push((u.clone(), "unit"));
                format!("unit {u}: {dn}")
            }
            11 => {
                // derived unit, optionally with decorators
                let mut d = self.random_dim();
                if dim_is_scalar(&d) {
                    d = [1, 0, 0, 0, 0, 0];
                }
                let u = self.fresh("u");
                let e = self.expr_dim(&d, 1, true);
                let mut deco = String::new();
                let mut short = None;
                let mut prefixes = false;
                deco.push_str(&self.decorators());
                if self.rng.chance(0.4) {
                    prefixes = true;
                    deco.push_str("@metric_prefixes\n");
                } else if self.rng.chance(0.15) {
                    deco.push_str("@binary_prefixes\n");
                }
                if self.rng.chance(0.4) {
                    let s = format!("{u}s");
                    deco.push_str(&format!("@aliases({s}: short)\n"));
                    gi.defines.push((s.clone(), "unit"));
                    short = Some(s);
                }
                let ann = if self.rng.chance(0.6) {
                    format!(": {}", self.dim_type_text(&d))
                } else {
                    String::new()
                };
                gi.contains.insert("unit");
                gi.defines.push((u.clone(), "unit"));
                let basis = self.unit_text(&d);
                gi.probes.push(format!("(1 {u} -> {basis})"));
                self.sym.units.push(UnitS {
                    name: u.clone(),
                    dim: d,
                    short,
                    prefixes,
                });
                format!("{deco}unit {u}{ann} = {e}")
            }
            22 => {
                // named derived dimension
                let d = self.random_dim();
                if dim_is_scalar(&d) {
                    return self.statement(0, gi);
                }
                let name = format!("D{}", self.fresh(""));
                let text = format!("dimension {name} = {}", self.dim_type_text(&d));
                self.sym.named_dims.push((name.clone(), d));
                gi.contains.insert("dimension");
                gi.defines.push((name, "dimension"));
                text
            }
            // ---- structs
            12 => {
                let name = format!("S{}", self.fresh(""));
                let nf = self.rng.range(1, 3) as usize;
                let fnames = ["fa", "fb", "fc"];
                let fields: Vec<(String, Ty)> = (0..nf)
                    .map(|i| (fnames[i].to_string(), self.random_ty(0)))
                    .collect();
                let text = format!(
                    "struct {name} {{ {} }}",
                    fields
                        .iter()
                        .map(|(f, t)| format!("{f}: {}", self.ty_text(t)))
                        .collect::<Vec<_>>()
                        .join(", ")
                );
                gi.contains.insert("struct");
                let lits: Option<Vec<String>> = fields
                    .iter()
                    .map(|(f, t)| self.literal_of(t).map(|l| format!("{f}: {l}")))
                    .collect();
                if let Some(l) = lits {
                    gi.probes.push(format!("{name} {{ {} }}", l.join(", ")));
                }
                self.sym.structs.push(StructS { name, fields });
                text
            }
            13 => {
                if self.sym.structs.is_empty() {
                    return self.statement(12, gi);
                }
                let s = self.rng.pick(&self.sym.structs).name.clone();
                let name = self.fresh("v");
                let e = self.expr_struct(&s, depth);
                gi.contains.insert("let");
                self.record_var(&name, Ty::Struct(s), false, gi);
                format!("let {name} = {e}")
            }
            14 => {
                let elem = self.random_ty(0);
                let name = self.fresh("v");
                let nonempty = self.rng.chance(0.7);
                let e = self.expr_list(&elem, depth.max(1), nonempty);
                gi.contains.insert("let");
                self.record_var(&name, Ty::List(Box::new(elem)), nonempty, gi);
                format!("let {name} = {e}")
            }
            // ---- imports
            15 => {
                if !self.cfg.allow_imports {
                    return self.statement(0, gi);
                }
                self.import_statement(gi, false)
            }
            // ---- expressions, ans, print, procedures
            16 if self.cfg.currency && self.rng.chance(0.35) => {
                // currency identifiers: the first one in a session triggers on-demand loading
                let c1 = *self.rng.pick(&["USD", "GBP", "JPY", "dollars", "yen", "$", "CHF", "EUR"]);
                let c2 = *self.rng.pick(&["USD", "EUR", "euros", "GBP", "£"]);
                gi.contains.insert("expr");
                gi.features.insert("currency");
                self.sym.ans = Some(Ty::Dim(SCALAR));
                format!("({} {c1} + {} {c2}) / (1 {c2})", self.rng.range(1, 9), self.rng.range(1, 9))
            }
            16 => {
                let ty = self.random_ty(1);
                let e = self.expr(&ty, depth, false);
                self.sym.ans = Some(ty);
                gi.contains.insert("expr");
                e
            }
            17 => match self.sym.ans.clone() {
                Some(Ty::Dim(d)) => {
                    gi.features.insert("ans-chain");
                    gi.contains.insert("expr");
                    let which = *self.rng.pick(&["ans", "_"]);
                    match self.rng.below(3) {
                        0 => format!("{which} + {}", self.literal(&d)),
                        1 => format!("{which} * {}", self.rng.range(2, 5)),
                        _ => which.to_string(),
                    }
                }
                Some(_) => {
                    gi.features.insert("ans-chain");
                    gi.contains.insert("expr");
                    "ans".to_string()
                }
                None => self.statement(16, gi),
            },
            18 => {
                gi.contains.insert("print");
                if self.with_markers && self.rng.chance(0.6) {
                    self.marker += 1;
                    return format!("print(\"mk-{}\")", self.marker);
                }
                let ty = self.random_ty(1);
                let e = self.expr(&ty, depth, false);
                format!("print({e})")
            }
            19 => {
                gi.contains.insert("procedure");
                match self.rng.below(4) {
                    0 => {
                        let d = self.random_dim();
                        let e = self.expr_dim(&d, depth, false);
                        format!("assert_eq({e}, {e})")
                    }
                    1 => {
                        let d = self.random_dim();
                        let a = self.literal(&d);
                        format!("assert_eq({a}, {a}, {})", self.literal(&d))
                    }
                    2 => {
                        let ty = self.random_ty(1);
                        let e = self.expr(&ty, depth, false);
                        format!("type({e})")
                    }
                    _ => {
                        let n = self.rng.range(1, 50);
                        format!("assert({n} == {n})")
                    }
                }
            }
            23 => {
                // use of something a recent failing input touched (follow-up traffic)
                if self.recent_failed.is_empty() {
                    return self.statement(0, gi);
                }
                let (name, kind) = self.rng.pick(&self.recent_failed).clone();
                gi.features.insert("follow-up");
                match kind {
                    "module" => {
                        gi.contains.insert("use");
                        if self.modules.get(&name).map(|m| !m.healthy).unwrap_or(false) {
                            // still broken: importing it again must fail again, the same way
                            self.expect_fail = Some(FaultKind::BrokenModule);
                        } else {
                            self.pending_imports.push(name.clone());
                        }
                        format!("use {name}")
                    }
                    "unit" if self.sym.units.iter().any(|u| u.name == name || u.short.as_deref() == Some(name.as_str())) => {
                        // it exists by now: use it (together with a unit of its own dimension)
                        gi.contains.insert("expr");
                        let d = self
                            .sym
                            .units
                            .iter()
                            .rev()
                            .find(|u| u.name == name || u.short.as_deref() == Some(name.as_str()))
                            .map(|u| u.dim)
                            .unwrap_or([1, 0, 0, 0, 0, 0]);
                        self.sym.ans = Some(Ty::Dim(d));
                        let other = self.literal(&d);
                        // prefixed spellings (long prefix + name, short prefix + short alias)
                        let spelled = match self
                            .sym
                            .units
                            .iter()
                            .rev()
                            .find(|u| (u.name == name || u.short.as_deref() == Some(name.as_str())) && u.prefixes)
                        {
                            Some(u) if self.rng.chance(0.6) => {
                                if u.short.as_deref() == Some(name.as_str()) {
                                    format!("m{name}")
                                } else {
                                    format!("kilo{name}")
                                }
                            }
                            _ => name.clone(),
                        };
                        format!("{} {spelled} + {other}", self.rng.range(1, 9))
                    }
                    "dimension" if self.sym.dims.iter().any(|d| d.0 == name) || self.sym.named_dims.iter().any(|d| d.0 == name) => {
                        return self.statement(0, gi);
                    }
                    "unit" => {
                        // (re-)define the unit name that a failed input — or, after a fork, the
                        // sibling session — tried to define, with its own dimension, value and
                        // decorators, so that stale metadata of the other definition would show
                        gi.contains.insert("unit");
                        gi.defines.push((name.clone(), "unit"));
                        let (dim, dim_name, base): (DimV, &str, &str) = match self.rng.below(3) {
                            0 => ([1, 0, 0, 0, 0, 0], "Length", "m"),
                            1 => ([0, 1, 0, 0, 0, 0], "Time", "s"),
                            _ => ([0, 0, 1, 0, 0, 0], "Mass", "kg"),
                        };
                        let mut deco = self.decorators();
                        let mut short = None;
                        let mut prefixes = false;
                        if self.rng.chance(0.4) {
                            let s = format!("{name}z");
                            deco.push_str(&format!("@aliases({s}: short)\n"));
                            gi.defines.push((s.clone(), "unit"));
                            short = Some(s);
                        }
                        if self.rng.chance(0.3) {
                            deco.push_str("@metric_prefixes\n");
                            prefixes = true;
                        }
                        gi.probes.push(format!("(3 {name} -> {base})"));
                        self.sym.units.push(UnitS {
                            name: name.clone(),
                            dim,
                            short,
                            prefixes,
                        });
                        format!("{deco}unit {name}: {dim_name} = {} {base}", self.rng.range(2, 9))
                    }
                    "struct" if !self.sym.structs.iter().any(|x| x.name == name) => {
                        // the struct a failed input tried to define, with other fields
                        gi.contains.insert("struct");
                        let fields = vec![
                            ("ga".to_string(), Ty::Dim(SCALAR)),
                            ("gb".to_string(), Ty::Dim([1, 0, 0, 0, 0, 0])),
                        ];
                        let nf = self.rng.range(1, 2) as usize;
                        let fields: Vec<(String, Ty)> = fields.into_iter().take(nf).collect();
                        let text = format!(
                            "struct {name} {{ {} }}",
                            fields
                                .iter()
                                .map(|(f, t)| format!("{f}: {}", self.ty_text(t)))
                                .collect::<Vec<_>>()
                                .join(", ")
                        );
                        let lits: Vec<String> = fields
                            .iter()
                            .map(|(f, t)| format!("{f}: {}", if matches!(t, Ty::Dim(d) if dim_is_scalar(d)) { "4" } else { "(2 * m)" }))
                            .collect();
                        gi.probes.push(format!("{name} {{ {} }}", lits.join(", ")));
                        self.sym.structs.push(StructS { name: name.clone(), fields });
                        text
                    }
                    "struct" => return self.statement(13, gi),
                    "function" => {
                        gi.contains.insert("fn");
                        gi.defines.push((name.clone(), "function"));
                        self.sym.fns.retain(|f| f.name != name);
                        self.sym.fns.push(FnS {
                            name: name.clone(),
                            params: vec![Ty::Dim(SCALAR)],
                            ret: Ty::Dim(SCALAR),
                            generic: false,
                            identity_like: false,
                            ret_pos: false,
                        });
                        format!("fn {name}(pa: Scalar) -> Scalar = pa + {}", self.rng.range(1, 9))
                    }
                    "dimension" => {
                        gi.contains.insert("dimension");
                        gi.defines.push((name.clone(), "dimension"));
                        if self.sym.dims.len() < 3 {
                            let idx = 3 + self.sym.dims.len();
                            self.sym.dims.push((name.clone(), idx));
                        } else {
                            // no free slot in the exponent vector: remember it as an opaque name
                            self.sym.named_dims.push((name.clone(), [0; NB]));
                        }
                        format!("dimension {name}")
                    }
                    _ => {
                        gi.contains.insert("let");
                        let d = self.random_dim();
                        let e = self.literal(&d);
                        self.record_var(&name, Ty::Dim(d), true, gi);
                        format!("let {name} = {e}")
                    }
                }
            }
            _ => self.statement(0, gi),
        }
    }

    // ---------------------------------------------------------------- modules

    /// Create a synthetic module (healthy, or broken in one of four ways).
    fn make_module(&mut self, broken: Option<u32>) -> String {
        self.next_id += 1;
        let id = format!("{}{}{}", self.module_tag, self.next_id, self.name_tag);
        let name = format!("sim::m{id}");
        let mut lines: Vec<String> = vec![];
        let mut deps = vec![];
        let mut exports = Sym::default();
        // dependencies: other healthy synthetic modules and small real modules
        let healthy: Vec<String> = self
            .modules
            .values()
            .filter(|m| m.healthy)
            .map(|m| m.name.clone())
            .collect();
        for _ in 0..self.rng.below(3) {
            if !healthy.is_empty() && self.rng.chance(0.7) {
                let d = self.rng.pick(&healthy).clone();
                if !deps.contains(&d) {
                    lines.push(format!("use {d}"));
                    deps.push(d);
                }
            } else if !self.cfg.real_modules.is_empty() {
                let d = self.rng.pick(&self.cfg.real_modules).clone();
                if !deps.contains(&d) {
                    lines.push(format!("use {d}"));
                    deps.push(d);
                }
            }
        }
        // own definitions, self-contained (literals and own earlier names only)
        let n = self.rng.range(1, 4);
        let mut own_scalars: Vec<String> = vec![];
        for k in 0..n {
            match self.rng.below(4) {
                0 | 1 => {
                    let v = format!("mv{id}_{k}");
                    let d = *self.rng.pick(&[SCALAR, [1, 0, 0, 0, 0, 0], [0, 1, 0, 0, 0, 0]]);
                    let mut e = self.literal_plain(&d);
                    if dim_is_scalar(&d) && !own_scalars.is_empty() && self.rng.chance(0.5) {
                        e = format!("{} + {e}", self.rng.pick(&own_scalars));
                    }
                    if dim_is_scalar(&d) {
                        own_scalars.push(v.clone());
                    }
                    lines.push(format!("let {v} = {e}"));
                    exports.vars.push(VarS {
                        name: v,
                        ty: Ty::Dim(d),
                        pos: true,
                        local: false,
                    });
                }
                2 => {
                    let f = format!("mf{id}_{k}");
                    lines.push(format!(
                        "fn {f}(pa: Scalar) -> Scalar = pa * {} + {}",
                        self.rng.range(1, 5),
                        self.rng.range(0, 5)
                    ));
                    exports.fns.push(FnS {
                        name: f,
                        params: vec![Ty::Dim(SCALAR)],
                        ret: Ty::Dim(SCALAR),
                        generic: false,
                        identity_like: false,
                        ret_pos: false,
                    });
                }
                _ => {
                    let u = format!("mu{id}_{k}");
                    lines.push(format!("unit {u}: Length = {} m", self.rng.range(2, 50)));
                    exports.units.push(UnitS {
                        name: u,
                        dim: [1, 0, 0, 0, 0, 0],
                        short: None,
                        prefixes: false,
                    });
                }
            }
        }
        let healthy_source = lines.join("\n");
        let mut source = healthy_source.clone();
        if let Some(kind) = broken {
            let bad = match kind % 4 {
                0 => "let = 3 +".to_string(),
                1 => "let mbad_t: Time = 1 meter".to_string(),
                2 => "let mbad_r = 1 / 0".to_string(),
                _ => format!("use sim::missing{id}"),
            };
            // the broken statement goes after (some of) the healthy content, so that the
            // module has already imported healthy modules / defined things when it fails
            let at = if self.rng.chance(0.7) {
                lines.len()
            } else {
                self.rng.below(lines.len() + 1)
            };
            let mut l2 = lines.clone();
            l2.insert(at, bad);
            source = l2.join("\n");
            self.repairable
                .insert(name.clone(), (healthy_source, exports.clone()));
        }
        self.modules.insert(
            name.clone(),
            ModS {
                name: name.clone(),
                source,
                deps,
                healthy: broken.is_none(),
                exports,
            },
        );
        name
    }

    fn literal_plain(&mut self, d: &DimV) -> String {
        let m = self.rng.range(1, 20);
        if dim_is_scalar(d) {
            format!("{m}")
        } else if d[0] == 1 {
            format!("{m} m")
        } else {
            format!("{m} s")
        }
    }

    /// Exports of a module including its synthetic dependencies (real modules: unknown, empty).
    fn closure_exports(&self, name: &str, acc: &mut Sym, seen: &mut BTreeSet<String>) {
        if !seen.insert(name.to_string()) {
            return;
        }
        if let Some(m) = self.modules.get(name) {
            for d in &m.deps {
                self.closure_exports(d, acc, seen);
            }
            acc.absorb(&m.exports);
        }
    }

    fn import_statement(&mut self, gi: &mut GenInput, force_new: bool) -> String {
        gi.contains.insert("use");
        gi.features.insert("import");
        let healthy: Vec<String> = self
            .modules
            .values()
            .filter(|m| m.healthy)
            .map(|m| m.name.clone())
            .collect();
        let r = self.rng.below(10);
        if !self.cfg.synthetic_modules {
            if self.cfg.real_modules.is_empty() {
                gi.contains.remove("use");
                gi.features.remove("import");
                return self.statement(0, gi);
            }
            let name = self.rng.pick(&self.cfg.real_modules).clone();
            self.pending_imports.push(name.clone());
            return format!("use {name}");
        }
        let name = if force_new || healthy.is_empty() || r < 3 {
            let n = self.make_module(None);
            gi.set_modules
                .push((n.clone(), self.modules[&n].source.clone()));
            n
        } else if r < 7 {
            self.rng.pick(&healthy).clone() // possibly a duplicate import
        } else if !self.cfg.real_modules.is_empty() {
            self.rng.pick(&self.cfg.real_modules).clone()
        } else {
            self.rng.pick(&healthy).clone()
        };
        self.pending_imports.push(name.clone());
        format!("use {name}")
    }

    // ---------------------------------------------------------------- faults

    fn fault_statement(&mut self, kind: &FaultKind, gi: &mut GenInput) -> String {
        match kind {
            FaultKind::Parse => {
                let opts = [
                    "1 +",
                    "let = 3",
                    "fn (pa) = pa",
                    "(1 + 2",
                    "let vbad = [1, 2",
                    "unit",
                    "1 m +* 2",
                    "let vbad = \"abc",
                    "struct { }",
                    "2 ^^ 3",
                ];
                if self.rng.chance(0.3) {
                    // truncation of a valid statement at a char boundary
                    let mut scratch = GenInput::default();
                    let saved = self.sym.clone();
                    let s = self.statement(0, &mut scratch);
                    self.sym = saved;
                    let cut = s.rfind(['+', '*', '(', '=']).unwrap_or(s.len().saturating_sub(1));
                    return s[..=cut.min(s.len() - 1)].to_string();
                }
                self.rng.pick(&opts).to_string()
            }
            FaultKind::UnknownModule => {
                let n = self.rng.range(1, 999);
                if self.rng.chance(0.5) {
                    format!("use sim::missing{n}")
                } else {
                    "use nonexistent::module".to_string()
                }
            }
            FaultKind::ModuleUnavailable => {
                // an existing module that has not been imported yet is unreadable right now
                let mut cands: Vec<String> = self
                    .modules
                    .values()
                    .filter(|m| m.healthy && !self.sym.imported.contains(&m.name))
                    .map(|m| m.name.clone())
                    .collect();
                for r in &self.cfg.real_modules {
                    if !self.sym.imported.contains(r) {
                        cands.push(r.clone());
                    }
                }
                let name = if cands.is_empty() || self.rng.chance(0.3) {
                    let n = self.make_module(None);
                    gi.set_modules
                        .push((n.clone(), self.modules[&n].source.clone()));
                    n
                } else {
                    self.rng.pick(&cands).clone()
                };
                gi.unavailable.push(name.clone());
                // sometimes a dependency is the unavailable one
                if let Some(m) = self.modules.get(&name)
                    && !m.deps.is_empty()
                    && self.rng.chance(0.4)
                {
                    let d = self.rng.pick(&m.deps).clone();
                    if !self.sym.imported.contains(&d) {
                        gi.unavailable = vec![d];
                    }
                }
                self.recent_failed.push((name.clone(), "module"));
                gi.contains.insert("use");
                format!("use {name}")
            }
            FaultKind::BrokenModule => {
                let kind = self.rng.below(4) as u32;
                let n = self.make_module(Some(kind));
                gi.set_modules
                    .push((n.clone(), self.modules[&n].source.clone()));
                let deps = self.modules[&n].deps.clone();
                for d in deps {
                    self.recent_failed.push((d, "module"));
                }
                self.recent_failed.push((n.clone(), "module"));
                gi.contains.insert("use");
                format!("use {n}")
            }
            FaultKind::NameClash => {
                let mut opts: Vec<String> = vec![
                    "let meter = 1".into(),
                    "fn second(pa) = pa".into(),
                    "unit gram".into(),
                    "let kilometer = 2".into(),
                ];
                for u in &self.sym.units {
                    opts.push(format!("let {} = 1", u.name));
                    opts.push(format!("unit {}: Length = 2 m", u.name));
                    opts.push(format!("fn {}(pa) = pa", u.name));
                }
                for v in self.sym.vars.iter().filter(|v| !v.local) {
                    opts.push(format!("unit {}: Length = 2 m", v.name));
                    opts.push(format!("fn {}(pa) = pa", v.name));
                }
                for f in &self.sym.fns {
                    opts.push(format!("let {} = 1", f.name));
                    opts.push(format!("unit {}: Length = 2 m", f.name));
                }
                for st in &self.sym.structs {
                    opts.push(format!("struct {} {{ fz: Scalar }}", st.name));
                }
                for d in &self.sym.dims {
                    opts.push(format!("dimension {}", d.0));
                }
                self.rng.pick(&opts).clone()
            }
            FaultKind::TypeError => {
                let mut opts: Vec<String> = vec![
                    "1 m + 1 s".into(),
                    "undefined_name_q + 1".into(),
                    "let vbad: Time = 1 m".into(),
                    "\"a\" + 1".into(),
                    "if 1 then 2 else 3".into(),
                    "sqrt(1, 2, 3)".into(),
                    "let vbad = [1 m, 2 s]".into(),
                    "fn fbad(pa: Length) -> Time = pa".into(),
                    "unit ubad: Time = 3 m".into(),
                    "dimension Length".into(),
                    "print(1 m -> s)".into(),
                ];
                if self.cfg.currency {
                    // type errors that do / do not trigger the on-demand load of units::currencies
                    for _ in 0..3 {
                        opts.push("1 USD + 1 m".into());
                        opts.push("let vbadc: Length = 2 GBP".into());
                        opts.push("undefined_name_q + 1 JPY".into());
                        opts.push("1 yen + undefined_name_q".into());
                        opts.push("print(3 $ -> s)".into());
                    }
                }
                for f in self.sym.fns.iter().filter(|f| !f.generic) {
                    opts.push(format!("{}(1, 2, 3, 4)", f.name));
                    opts.push(format!("{}(true, \"x\", [1], 1 m, 2)", f.name));
                }
                for v in self.sym.vars.iter().filter(|v| !v.local) {
                    if matches!(v.ty, Ty::Dim(_)) {
                        opts.push(format!("{} + \"s\"", v.name));
                    }
                }
                let s = self.rng.pick(&opts).clone();
                if self.rng.chance(0.3) && !s.starts_with("let") && !s.starts_with("fn")
                    && !s.starts_with("unit") && !s.starts_with("dimension") && !s.starts_with("print")
                {
                    let v = self.fresh("v");
                    self.recent_failed.push((v.clone(), "variable"));
                    format!("let {v} = {s}")
                } else {
                    s
                }
            }
            FaultKind::RuntimeError | FaultKind::VmFault => {
                let opts = [
                    "1 / 0",
                    "assert(1 == 2)",
                    "assert_eq(1 m, 2 m)",
                    "error(\"boom\")",
                    "head(tail([1]))",
                    "(-1)!",
                    "tail(tail([1 m]))",
                    "assert_eq(1 m, 2 m, 1 cm)",
                    "element_at(5, [1, 2])",
                    "1.5!",
                ];
                let mut core = self.rng.pick(&opts).to_string();
                if self.cfg.currency && self.rng.chance(0.3) {
                    core = (*self.rng.pick(&["(1 USD) / (0 EUR)", "assert_eq(1 USD, 2 EUR)", "error(\"{1 GBP}\")"])).to_string();
                }
                let is_expr = !core.starts_with("assert");
                match self.rng.below(6) {
                    0 if is_expr => {
                        let v = self.fresh("v");
                        self.recent_failed.push((v.clone(), "variable"));
                        gi.defines.push((v.clone(), "variable"));
                        format!("let {v} = {core}")
                    }
                    1 if is_expr => format!("print({core})"),
                    2 if is_expr => {
                        // failure at call depth 1..5
                        let f = self.fresh("f");
                        let depth = self.rng.range(1, 5);
                        self.recent_failed.push((f.clone(), "function"));
                        gi.defines.push((f.clone(), "function"));
                        let scalar_core = if core == "1 / 0" || core == "(-1)!" || core == "1.5!" || core.starts_with("element_at") {
                            core.clone()
                        } else {
                            "1 / 0".to_string()
                        };
                        format!(
                            "fn {f}(pa: Scalar) -> Scalar = if pa <= 0 then {scalar_core} else {f}(pa - 1)\n{f}({depth})"
                        )
                    }
                    3 if is_expr => {
                        let u = self.fresh("u");
                        self.recent_failed.push((u.clone(), "unit"));
                        gi.defines.push((u.clone(), "unit"));
                        format!("unit {u}: Length = (1 / 0) m")
                    }
                    4 if is_expr => format!("if true then {core} else {core}"),
                    _ => core,
                }
            }
        }
    }

    /// A faulty statement of the given kind, without touching the generator's beliefs.
    pub fn fault_only(&mut self, kind: &FaultKind) -> String {
        let saved = self.sym.clone();
        let mut gi = GenInput::default();
        let mut s = self.fault_statement(kind, &mut gi);
        self.sym = saved;
        if self.cfg.trivia {
            // Unicode spellings also inside the faulty statement: diagnostics then have to quote
            // and underline multi-byte source text
            for (from, to) in [(" / ", " ÷ "), (" * ", " × "), (" -> ", " → "), (" != ", " ≠ "), (" + ", " + ")] {
                if s.contains(from) && self.rng.chance(0.5) {
                    s = s.replacen(from, to, 1);
                }
            }
        }
        s
    }

    // ---------------------------------------------------------------- inputs

    fn pick_kind(&mut self) -> usize {
        let mut w = self.cfg.weights.clone();
        if self.recent_failed.is_empty() {
            w[23] = 0;
        } else {
            // follow-up traffic is only interesting right after a failure: strong bias
            w[23] = w.iter().sum::<u32>().max(1) / 2;
        }
        if !self.cfg.allow_imports {
            w[15] = 0;
        }
        self.rng.pick_weighted(&w)
    }

    /// Next input. Must be followed by `feedback`.
    pub fn next_input(&mut self) -> GenInput {
        self.saved = Some(self.sym.clone());
        self.pending_imports.clear();
        let mut gi = GenInput::default();
        // repairs of broken modules / heals happen as separate, rare steps
        if !self.repairable.is_empty() && self.rng.chance(0.25) {
            let names: Vec<String> = self.repairable.keys().cloned().collect();
            let name = self.rng.pick(&names).clone();
            let (src, exports) = self.repairable.remove(&name).unwrap();
            if let Some(m) = self.modules.get_mut(&name) {
                m.source = src.clone();
                m.healthy = true;
                m.exports = exports;
            }
            gi.set_modules.push((name.clone(), src));
            gi.heals.push(name.clone());
            gi.contains.insert("use");
            gi.features.insert("import");
            self.pending_imports.push(name.clone());
            gi.text = format!("use {name}");
            gi.n_statements = 1;
            return gi;
        }
        let faulty = self.rng.chance(self.cfg.fault_rate);
        let n = self.rng.range(1, self.cfg.max_statements as i64) as usize;
        let mut stmts: Vec<String> = vec![];
        if faulty {
            let kind = self.rng.pick(&self.cfg.fault_kinds.clone()).clone();
            let pos = match self.rng.below(4) {
                0 => 0,
                1 => n - 1,
                _ => self.rng.below(n),
            };
            for i in 0..n {
                if i == pos {
                    if kind == FaultKind::VmFault {
                        // an ordinary statement; the driver arms the VM fault
                        let k = self.pick_kind();
                        stmts.push(self.statement_checked(k, &mut gi));
                        self.expect_fail = None;
                    } else {
                        let mut scratch = GenInput::default();
                        let s = self.fault_statement(&kind, &mut scratch);
                        gi.unavailable = scratch.unavailable;
                        gi.set_modules.extend(scratch.set_modules);
                        // definitions attempted by the faulty statement itself
                        for d in scratch.defines {
                            gi.defines.push(d);
                        }
                        stmts.push(s);
                    }
                } else {
                    let k = self.pick_kind();
                    let mut g2 = GenInput::default();
                    let s = self.statement_checked(k, &mut g2);
                    self.expect_fail = None;
                    if i < pos {
                        gi.contains.extend(g2.contains.iter());
                    }
                    gi.defines.extend(g2.defines);
                    gi.set_modules.extend(g2.set_modules);
                    gi.features.extend(g2.features.iter());
                    stmts.push(s);
                    // define-then-use inside the failing input: what the successful prefix just
                    // defined (unit, function, struct) is also USED before the failure, so that
                    // anything computed lazily about the new definition exists when the input
                    // is rolled back
                    if i < pos && !g2.probes.is_empty() && self.rng.chance(0.5) {
                        let p = self.rng.pick(&g2.probes).clone();
                        stmts.push(format!("print({p})"));
                        gi.contains.insert("print");
                    }
                }
            }
            gi.fault = Some(kind);
            gi.fault_pos = Some(pos);
            // remember what the failing input touched, for follow-up traffic
            for (name, kind) in gi.defines.clone() {
                self.recent_failed.push((name, kind));
            }
            for m in self.pending_imports.clone() {
                self.recent_failed.push((m, "module"));
            }
            // structs the failing input tried to define (they are not in any name list, so they
            // are not part of `defines`; follow-up traffic re-defines them with other fields)
            for st in &stmts {
                if let Some(rest) = st.strip_prefix("struct ")
                    && let Some(name) = rest.split_whitespace().next()
                    && name.starts_with("Sq")
                {
                    self.recent_failed.push((name.to_string(), "struct"));
                }
            }
            if self.recent_failed.len() > 8 {
                let cut = self.recent_failed.len() - 8;
                self.recent_failed.drain(..cut);
            }
        } else {
            for i in 0..n {
                let k = self.pick_kind();
                let s = self.statement_checked(k, &mut gi);
                if let Some(kind) = self.expect_fail.take() {
                    gi.fault = Some(kind);
                    gi.fault_pos = Some(i);
                }
                stmts.push(s);
            }
        }
        gi.n_statements = stmts.len();
        gi.text = stmts.join("\n");
        if self.cfg.trivia {
            gi.text = self.add_trivia(&gi.text);
        }
        gi
    }

    /// Comment lines, trailing comments, blank lines and Unicode spellings of operators: none of
    /// them changes what the input means, all of them change its bytes, line numbers and spans.
    fn add_trivia(&mut self, text: &str) -> String {
        let mut out: Vec<String> = vec![];
        let mut prev_decorator = false;
        for line in text.lines() {
            let is_deco = line.starts_with('@');
            if !prev_decorator {
                if self.rng.chance(0.12) {
                    let n = self.rng.range(0, 99);
                    out.push(match self.rng.below(3) {
                        0 => format!("# c{n}"),
                        1 => format!("  # note {n}: 2 × 3 → 6 m²"),
                        _ => format!("#c{n} let x = 1 / 0"),
                    });
                }
                if self.rng.chance(0.04) {
                    out.push(String::new());
                }
            }
            let mut l = line.to_string();
            if !is_deco {
                for (from, to) in [
                    (" * ", " × "),
                    (" * ", " · "),
                    (" / ", " ÷ "),
                    (" -> ", " → "),
                    (" -> ", " ➞ "),
                    (" <= ", " ≤ "),
                    (" >= ", " ≥ "),
                    (" != ", " ≠ "),
                    (")^2", ")²"),
                ] {
                    if l.contains(from) && self.rng.chance(0.15) {
                        l = l.replacen(from, to, 1);
                    }
                }
                if self.rng.chance(0.12) {
                    l.push_str(&format!("  # t{}", self.rng.range(0, 99)));
                }
            }
            out.push(l);
            prev_decorator = is_deco;
        }
        out.join("\n")
    }

    /// Tell the generator whether the input it just produced succeeded in the real session.
    pub fn feedback(&mut self, ok: bool) {
        if ok {
            for m in std::mem::take(&mut self.pending_imports) {
                let mut acc = Sym::default();
                let mut seen = BTreeSet::new();
                self.closure_exports(&m, &mut acc, &mut seen);
                self.sym.absorb(&acc);
                for s in seen {
                    self.sym.imported.insert(s);
                }
                self.sym.imported.insert(m);
            }
            self.saved = None;
            // follow-up interest decays
            if !self.recent_failed.is_empty() && self.rng.chance(0.5) {
                self.recent_failed.remove(0);
            }
        } else {
            if let Some(s) = self.saved.take() {
                self.sym = s;
            }
            self.pending_imports.clear();
        }
    }
}
