//! Drives the real `numbat` binary's interactive REPL under a pseudo terminal, so that the
//! real REPL loop (rustyline, command runner, history push, `save`) can be cross-checked against
//! the in-process copy of the loop glue that C07 uses. Only used as a cross-check: the result
//! of a session (saved file, replay) does not depend on timing, the prompt detection only
//! decides when the next line is typed.

use std::io::Write;
use std::os::fd::{FromRawFd, RawFd};
use std::os::unix::process::CommandExt;
use std::path::Path;
use std::process::{Command, Stdio};
use std::time::{Duration, Instant};

pub struct PtyResult {
    pub output: String,
    pub exit_code: Option<i32>,
    pub timed_out: bool,
}

fn strip_ansi(s: &str) -> String {
    let mut out = String::with_capacity(s.len());
    let mut it = s.chars().peekable();
    while let Some(c) = it.next() {
        if c == '\u{1b}' {
            if it.peek() == Some(&'[') {
                it.next();
                for d in it.by_ref() {
                    if d.is_ascii_alphabetic() || d == '~' {
                        break;
                    }
                }
            } else {
                it.next();
            }
        } else {
            out.push(c);
        }
    }
    out
}

fn at_prompt(raw: &[u8], prompt: &str) -> bool {
    let s = strip_ansi(&String::from_utf8_lossy(raw));
    s.trim_end_matches(['\r', '\n']).ends_with(prompt)
}

/// Type `lines` into an interactive numbat session (multi-line inputs are entered with
/// Alt+Enter between their lines, exactly as a user would).
pub fn run_repl(
    binary: &str,
    sandbox: &Path,
    modules_path: &str,
    lines: &[String],
    per_line_timeout: Duration,
) -> Result<PtyResult, String> {
    let mut master: RawFd = 0;
    let mut slave: RawFd = 0;
    // SAFETY: plain libc call with valid out-pointers
    let rc = unsafe {
        libc::openpty(
            &mut master,
            &mut slave,
            std::ptr::null_mut(),
            std::ptr::null_mut(),
            std::ptr::null_mut(),
        )
    };
    if rc != 0 {
        return Err("openpty failed".into());
    }
    unsafe {
        let ws = libc::winsize {
            ws_row: 50,
            ws_col: 200,
            ws_xpixel: 0,
            ws_ypixel: 0,
        };
        libc::ioctl(master, libc::TIOCSWINSZ, &ws);
    }
    std::fs::create_dir_all(sandbox.join("cfg/numbat")).map_err(|e| e.to_string())?;
    std::fs::create_dir_all(sandbox.join("home")).map_err(|e| e.to_string())?;
    std::fs::create_dir_all(sandbox.join("data")).map_err(|e| e.to_string())?;
    std::fs::create_dir_all(sandbox.join("run")).map_err(|e| e.to_string())?;
    std::fs::write(
        sandbox.join("cfg/numbat/config.toml"),
        "intro-banner = \"off\"\nprompt = \"nbsim> \"\n[exchange-rates]\nfetching-policy = \"never\"\n",
    )
    .map_err(|e| e.to_string())?;
    let prompt = "nbsim> ";
    let mut cmd = Command::new(binary);
    // SAFETY: the fds are valid; each Stdio takes ownership of its own duplicate
    unsafe {
        cmd.stdin(Stdio::from_raw_fd(libc::dup(slave)))
            .stdout(Stdio::from_raw_fd(libc::dup(slave)))
            .stderr(Stdio::from_raw_fd(libc::dup(slave)));
        cmd.pre_exec(|| {
            libc::setsid();
            libc::ioctl(0, libc::TIOCSCTTY, 0);
            Ok(())
        });
    }
    cmd.env_clear()
        .env("HOME", sandbox.join("home"))
        .env("XDG_CONFIG_HOME", sandbox.join("cfg"))
        .env("XDG_DATA_HOME", sandbox.join("data"))
        .env("NUMBAT_MODULES_PATH", modules_path)
        .env("TZ", "UTC")
        .env("NO_COLOR", "1")
        .env("TERM", "xterm")
        .arg("--no-init")
        .current_dir(sandbox.join("run"));
    let mut child = cmd.spawn().map_err(|e| format!("cannot spawn {binary}: {e}"))?;
    unsafe {
        libc::close(slave);
        let fl = libc::fcntl(master, libc::F_GETFL);
        libc::fcntl(master, libc::F_SETFL, fl | libc::O_NONBLOCK);
    }
    let mut mfile = unsafe { std::fs::File::from_raw_fd(master) };
    let mut raw: Vec<u8> = vec![];
    let mut timed_out = false;

    let read_some = |raw: &mut Vec<u8>| -> bool {
        let mut buf = [0u8; 8192];
        let n = unsafe { libc::read(master, buf.as_mut_ptr() as *mut libc::c_void, buf.len()) };
        if n > 0 {
            raw.extend_from_slice(&buf[..n as usize]);
            true
        } else {
            false
        }
    };
    let wait_prompt = |raw: &mut Vec<u8>, from: usize, timeout: Duration| -> bool {
        let deadline = Instant::now() + timeout;
        let mut quiet_since = Instant::now();
        loop {
            if read_some(raw) {
                quiet_since = Instant::now();
            } else {
                std::thread::sleep(Duration::from_millis(3));
            }
            if raw.len() > from
                && quiet_since.elapsed() > Duration::from_millis(25)
                && at_prompt(&raw[from..], prompt)
            {
                return true;
            }
            if Instant::now() > deadline {
                return false;
            }
        }
    };

    if !wait_prompt(&mut raw, 0, Duration::from_secs(60)) {
        timed_out = true;
    }
    if !timed_out {
        for l in lines {
            let from = raw.len();
            let typed = l.replace('\n', "\u{1b}\r");
            if mfile.write_all(typed.as_bytes()).is_err() || mfile.write_all(b"\r").is_err() {
                break;
            }
            if l.trim() == "quit" || l.trim() == "exit" {
                break;
            }
            if !wait_prompt(&mut raw, from, per_line_timeout) {
                timed_out = true;
                break;
            }
        }
    }
    // wait for exit
    let deadline = Instant::now() + Duration::from_secs(15);
    let mut code = None;
    loop {
        let _ = read_some(&mut raw);
        match child.try_wait() {
            Ok(Some(st)) => {
                code = st.code();
                break;
            }
            Ok(None) => {
                if Instant::now() > deadline || timed_out {
                    let _ = child.kill();
                    let _ = child.wait();
                    timed_out = true;
                    break;
                }
                std::thread::sleep(Duration::from_millis(5));
            }
            Err(_) => break,
        }
    }
    while read_some(&mut raw) {}
    Ok(PtyResult {
        output: strip_ansi(&String::from_utf8_lossy(&raw)),
        exit_code: code,
        timed_out,
    })
}
