//! nbsim — deterministic simulation with fault injection for sharkdp/numbat.
//!
//!   nbsim run <ID> --tier quick|thorough [--runs N] [--workers N] [--max-seconds S]
//!             [--evidence PATH] [--fingerprints PATH]
//!   nbsim replay <trace.json> [--quiet]
//!
//! `VERIF_SEED` (default 1) is the one integer every run derives from.

mod c06;
mod c07;
mod c17;
mod c18;
mod c18_interp;
mod c22;
mod engine;
mod oracle;
mod ptyrepl;
mod rng;
mod sess;
mod workload;

use engine::{BatchCfg, Tier};

pub fn verif_root() -> String {
    std::env::var("VERIF_ROOT").unwrap_or_else(|_| "/verif".to_string())
}

fn usage() -> ! {
    eprintln!(
        "usage: nbsim run <C06|C07|C17|C18|C22> --tier quick|thorough [--runs N] [--workers N] [--max-seconds S] [--evidence PATH] [--fingerprints PATH]\n       nbsim replay <trace.json> [--quiet]"
    );
    std::process::exit(2);
}

fn main() {
    sess::install_panic_hook();
    // Sessions are cloned all the time; keep freed memory in the process instead of returning
    // it to the kernel after every clone (pure performance knob, no influence on any run).
    unsafe {
        libc::mallopt(libc::M_MMAP_THRESHOLD, 1 << 30);
        libc::mallopt(libc::M_TRIM_THRESHOLD, 1 << 30);
        libc::mallopt(libc::M_TOP_PAD, 64 << 20);
    }
    // Determinism hygiene: nothing in the workloads depends on the local time zone, but pin it anyway.
    // SAFETY: single-threaded at this point.
    unsafe {
        std::env::set_var("TZ", "UTC");
    }
    numbat::Context::use_test_exchange_rates();

    let args: Vec<String> = std::env::args().skip(1).collect();
    if args.is_empty() {
        usage();
    }
    let code = match args[0].as_str() {
        "run" => cmd_run(&args[1..]),
        "replay" => cmd_replay(&args[1..]),
        // internal: reference execution of a C06 history in a fresh process (stdin -> stdout)
        "c06-ref" => c06::ref_child_main(),
        _ => usage(),
    };
    std::process::exit(code);
}

fn opt<'a>(args: &'a [String], name: &str) -> Option<&'a str> {
    args.iter()
        .position(|a| a == name)
        .and_then(|i| args.get(i + 1))
        .map(|s| s.as_str())
}

fn cmd_run(args: &[String]) -> i32 {
    let Some(id) = args.first() else { usage() };
    let tier = match opt(args, "--tier")
        .map(|s| s.to_string())
        .or_else(|| std::env::var("VERIF_TIER").ok())
        .as_deref()
    {
        Some("thorough") => Tier::Thorough,
        _ => Tier::Quick,
    };
    let verif_seed: u64 = std::env::var("VERIF_SEED")
        .ok()
        .and_then(|s| s.trim().parse().ok())
        .unwrap_or(1);
    let workers = opt(args, "--workers")
        .and_then(|s| s.parse().ok())
        .or_else(|| {
            std::env::var("NBSIM_WORKERS")
                .ok()
                .and_then(|s| s.parse().ok())
        })
        .unwrap_or_else(|| {
            std::thread::available_parallelism()
                .map(|n| n.get())
                .unwrap_or(4)
                .min(16)
        });
    let cfg = BatchCfg {
        tier,
        verif_seed,
        workers,
        runs_override: opt(args, "--runs").and_then(|s| s.parse().ok()),
        max_seconds: opt(args, "--max-seconds").and_then(|s| s.parse().ok()),
        evidence_path: Some(
            opt(args, "--evidence")
                .map(|s| s.to_string())
                .unwrap_or_else(|| format!("{}/evidence/{id}.json", verif_root())),
        ),
        fingerprints_out: opt(args, "--fingerprints").map(|s| s.to_string()),
        selfcheck_every: opt(args, "--selfcheck-every")
            .and_then(|s| s.parse().ok())
            .unwrap_or(100),
    };
    match id.as_str() {
        "C06" => engine::run_batch(&c06::C06, &cfg),
        "C07" => engine::run_batch(&c07::C07, &cfg),
        "C17" => engine::run_batch(&c17::C17, &cfg),
        "C18" => engine::run_batch(&c18::C18, &cfg),
        "C22" => engine::run_batch(&c22::C22, &cfg),
        _ => {
            eprintln!("unknown property {id}");
            2
        }
    }
}

fn cmd_replay(args: &[String]) -> i32 {
    let Some(path) = args.first() else { usage() };
    let quiet = args.iter().any(|a| a == "--quiet");
    let text = match std::fs::read_to_string(path) {
        Ok(t) => t,
        Err(e) => {
            println!("HARNESS-ERROR cannot read {path}: {e}");
            return 2;
        }
    };
    let trace: serde_json::Value = match serde_json::from_str(&text) {
        Ok(t) => t,
        Err(e) => {
            println!("HARNESS-ERROR cannot parse {path}: {e}");
            return 2;
        }
    };
    match trace["property"].as_str().unwrap_or("") {
        "C06" => engine::replay_file(&c06::C06, path, &trace, quiet),
        "C07" => engine::replay_file(&c07::C07, path, &trace, quiet),
        "C17" => engine::replay_file(&c17::C17, path, &trace, quiet),
        "C18" => engine::replay_file(&c18::C18, path, &trace, quiet),
        "C22" => engine::replay_file(&c22::C22, path, &trace, quiet),
        other => {
            println!("HARNESS-ERROR unknown property {other:?} in {path}");
            2
        }
    }
}
