//! C06 — a failing input leaves the session unchanged.
//!
//! Twin sessions: A receives the generated history including failing inputs; B only ever sees
//! the inputs that succeeded in A (each input is tried on a clone of B first, so B's view of a
//! failing input is "never submitted"). After every input: same outcome in A and B, same
//! importer traffic; after every failing input A must equal the snapshot taken before it; A and
//! B must stay observationally equal; an independent name-set model checks that only names
//! defined by successful inputs exist.

use std::collections::{BTreeMap, BTreeSet};

use serde_json::{Value, json};

use crate::engine::{ExecResult, Prop, Tier};
use crate::workload::{FaultKind, Gen, GenInput};
use crate::oracle::{ProbeSet, define_probes, digest, first_difference, modules_in};
use crate::rng::{Fnv, Rng};
use crate::sess::{Sess, SimImporter};

pub struct SessWorker {
    pub importer: SimImporter,
    prelude: Option<Sess>,
    light: Option<Sess>,
    /// independently built (from scratch) base contexts, by (slot, light): see `scratch_base`
    scratch: BTreeMap<(usize, bool), Sess>,
    pub real_modules_prelude: Vec<String>,
    pub real_modules_light: Vec<String>,
}

const CANDIDATE_MODULES: &[&str] = &[
    "extra::algebra",
    "extra::color",
    "extra::cooking",
    "extra::vector3",
    "numerics::diff",
    "numerics::fixed_point",
    "numerics::solve",
    "units::stoney",
    "units::hartree",
    "units::time",
    "units::bit",
    "units::partsperx",
    "math::trigonometry",
    "math::combinatorics",
    "math::number_theory",
    "core::numbers",
    "core::quantities",
];

impl SessWorker {
    pub fn new() -> Self {
        SessWorker {
            importer: SimImporter::new(),
            prelude: None,
            light: None,
            scratch: BTreeMap::new(),
            real_modules_prelude: vec![],
            real_modules_light: vec![],
        }
    }

    fn build(&mut self, light: bool) -> Result<(), String> {
        let mut s = Sess::new(self.importer.clone());
        let code = if light {
            "use units::si\nuse core::lists\nuse core::strings\nuse core::error\nuse core::functions"
        } else {
            "use prelude"
        };
        let o = s.submit(code);
        if !o.is_ok() {
            return Err(format!("could not build base context: {}", o.full_text()));
        }
        // which real modules can be imported on top of this base (and are not part of it)
        let mut mods = vec![];
        let before = s.names();
        for m in CANDIDATE_MODULES {
            let mut c = s.clone();
            let o = c.submit(&format!("use {m}"));
            if o.is_ok() && c.names() != before {
                mods.push(m.to_string());
            }
        }
        if light {
            self.light = Some(s);
            self.real_modules_light = mods;
        } else {
            self.prelude = Some(s);
            self.real_modules_prelude = mods;
        }
        Ok(())
    }

    pub fn base(&mut self, light: bool) -> Result<Sess, String> {
        if light && self.light.is_none() {
            self.build(true)?;
        }
        if !light && self.prelude.is_none() {
            self.build(false)?;
        }
        self.importer.reset_run();
        Ok(if light {
            self.light.clone().unwrap()
        } else {
            self.prelude.clone().unwrap()
        })
    }

    /// A base context built from scratch (not a clone of the cached one): shares nothing with
    /// any other session of this worker. Used as the reference for "a copied session evolves
    /// independently".
    pub fn fresh_base(&mut self, light: bool) -> Result<Sess, String> {
        let mut s = Sess::new(self.importer.clone());
        let code = if light {
            "use units::si\nuse core::lists\nuse core::strings\nuse core::error\nuse core::functions"
        } else {
            "use prelude"
        };
        self.importer.set_tag("fresh-base");
        let o = s.submit(code);
        if !o.is_ok() {
            return Err(format!("could not build base context: {}", o.full_text()));
        }
        Ok(s)
    }

    /// A copy of the `slot`-th independently built base context of this worker. Contexts of
    /// different slots share nothing (each was built with `Context::new` + load), so a session
    /// under test (slot 0) and its references (slots 1, 2) cannot be coupled by state that
    /// `Context::clone` might share. Copies of one slot are taken by many runs; that is sound
    /// because every run uses names of its own (per-run name tag). Building from scratch for
    /// every run instead makes a thorough batch leak tens of gigabytes: the resolver leaks the
    /// source text of every module it loads (`Box::leak`).
    pub fn scratch_base(&mut self, slot: usize, light: bool) -> Result<Sess, String> {
        if !self.scratch.contains_key(&(slot, light)) {
            let s = self.fresh_base(light)?;
            self.scratch.insert((slot, light), s);
        }
        Ok(self.scratch[&(slot, light)].clone())
    }

    pub fn real_modules(&mut self, light: bool) -> Vec<String> {
        let _ = self.base(light);
        if light {
            self.real_modules_light.clone()
        } else {
            self.real_modules_prelude.clone()
        }
    }
}

/// One literal step of a history.
#[derive(Clone, Debug, Default)]
pub struct Step {
    pub text: String,
    pub vm_fault_at: Option<u64>,
    pub unavailable: Vec<String>,
    pub set_modules: Vec<(String, String)>,
    pub defines: Vec<(String, String)>,
    pub probes: Vec<String>,
    /// what the generator intended: "ok" or a fault kind (never used by an oracle)
    pub label: String,
    pub fault_pos: Option<usize>,
    pub n_statements: usize,
    pub contains: Vec<String>,
    pub features: Vec<String>,
    /// the generator evaluated this input on a clone of the session first (to learn how many VM
    /// instructions it executes); a replay repeats that, so that it is the same execution even
    /// if the system under test lets a clone influence its original
    pub dry_run: bool,
}

impl Step {
    pub fn from_gen(gi: &GenInput) -> Step {
        Step {
            text: gi.text.clone(),
            vm_fault_at: None,
            unavailable: gi.unavailable.clone(),
            set_modules: gi.set_modules.clone(),
            defines: gi
                .defines
                .iter()
                .map(|(n, k)| (n.clone(), k.to_string()))
                .collect(),
            probes: gi.probes.clone(),
            label: gi
                .fault
                .as_ref()
                .map(|f| f.name().to_string())
                .unwrap_or_else(|| "ok".into()),
            fault_pos: gi.fault_pos,
            n_statements: gi.n_statements,
            contains: gi.contains.iter().map(|s| s.to_string()).collect(),
            features: gi.features.iter().map(|s| s.to_string()).collect(),
            dry_run: false,
        }
    }
    pub fn to_json(&self) -> Value {
        let mut m = serde_json::Map::new();
        m.insert("op".into(), json!("input"));
        m.insert("text".into(), json!(self.text));
        if let Some(n) = self.vm_fault_at {
            m.insert("vm_fault_at".into(), json!(n));
        }
        if !self.unavailable.is_empty() {
            m.insert("unavailable".into(), json!(self.unavailable));
        }
        if !self.set_modules.is_empty() {
            let mm: BTreeMap<&String, &String> =
                self.set_modules.iter().map(|(a, b)| (a, b)).collect();
            m.insert("set_modules".into(), json!(mm));
        }
        if !self.defines.is_empty() {
            m.insert("defines".into(), json!(self.defines));
        }
        if !self.probes.is_empty() {
            m.insert("probes".into(), json!(self.probes));
        }
        m.insert("label".into(), json!(self.label));
        if let Some(p) = self.fault_pos {
            m.insert("fault_pos".into(), json!(p));
        }
        m.insert("n_statements".into(), json!(self.n_statements));
        if !self.contains.is_empty() {
            m.insert("contains".into(), json!(self.contains));
        }
        if !self.features.is_empty() {
            m.insert("features".into(), json!(self.features));
        }
        if self.dry_run {
            m.insert("dry_run".into(), json!(true));
        }
        Value::Object(m)
    }
    pub fn from_json(v: &Value) -> Step {
        let strs = |k: &str| -> Vec<String> {
            v[k].as_array()
                .map(|a| {
                    a.iter()
                        .filter_map(|x| x.as_str().map(|s| s.to_string()))
                        .collect()
                })
                .unwrap_or_default()
        };
        Step {
            text: v["text"].as_str().unwrap_or("").to_string(),
            vm_fault_at: v["vm_fault_at"].as_u64(),
            unavailable: strs("unavailable"),
            set_modules: v["set_modules"]
                .as_object()
                .map(|o| {
                    o.iter()
                        .map(|(k, v)| (k.clone(), v.as_str().unwrap_or("").to_string()))
                        .collect()
                })
                .unwrap_or_default(),
            defines: v["defines"]
                .as_array()
                .map(|a| {
                    a.iter()
                        .filter_map(|p| {
                            Some((
                                p.get(0)?.as_str()?.to_string(),
                                p.get(1)?.as_str()?.to_string(),
                            ))
                        })
                        .collect()
                })
                .unwrap_or_default(),
            probes: strs("probes"),
            label: v["label"].as_str().unwrap_or("ok").to_string(),
            fault_pos: v["fault_pos"].as_u64().map(|x| x as usize),
            n_statements: v["n_statements"].as_u64().unwrap_or(1) as usize,
            contains: strs("contains"),
            features: strs("features"),
            dry_run: v["dry_run"].as_bool().unwrap_or(false),
        }
    }
}

pub trait StepSource {
    /// Next step; `a` is the faulted session (for dry runs that place VM faults).
    fn next(&mut self, a: &Sess, importer: &SimImporter) -> Option<Step>;
    fn feedback(&mut self, ok: bool);
}

pub struct ReplaySource {
    pub steps: Vec<Step>,
    pub i: usize,
}

impl StepSource for ReplaySource {
    fn next(&mut self, a: &Sess, importer: &SimImporter) -> Option<Step> {
        let s = self.steps.get(self.i).cloned();
        self.i += 1;
        if let Some(step) = &s
            && step.dry_run
        {
            for (n, src) in &step.set_modules {
                importer.add_module(n, src);
            }
            importer.set_tag("dry");
            let _ = a.dry_run_steps(&step.text);
        }
        s
    }
    fn feedback(&mut self, _ok: bool) {}
}

pub struct GenSource {
    pub generator: Gen,
    pub remaining: usize,
}

impl StepSource for GenSource {
    fn next(&mut self, a: &Sess, importer: &SimImporter) -> Option<Step> {
        if self.remaining == 0 {
            return None;
        }
        self.remaining -= 1;
        let gi = self.generator.next_input();
        let mut step = Step::from_gen(&gi);
        if gi.fault == Some(FaultKind::VmFault) {
            // the "crash at an arbitrary point": learn how many VM instructions the input
            // executes from a dry run on a clone, then pick one of them
            for (n, src) in &step.set_modules {
                importer.add_module(n, src);
            }
            importer.set_tag("dry");
            step.dry_run = true;
            let (steps, ok) = a.dry_run_steps(&step.text);
            if ok && steps > 0 {
                let n = 1 + self.generator.rng.below(steps as usize) as u64;
                step.vm_fault_at = Some(n);
            } else {
                step.label = "ok".into();
                step.fault_pos = None;
            }
        }
        Some(step)
    }
    fn feedback(&mut self, ok: bool) {
        self.generator.feedback(ok);
    }
}

fn pos_bucket(pos: Option<usize>, n: usize) -> &'static str {
    match pos {
        None => "-",
        Some(0) if n == 1 => "only",
        Some(0) => "first",
        Some(p) if p + 1 == n => "last",
        Some(_) => "middle",
    }
}

/// Execute a history against twin sessions. Returns the literal steps executed.
/// Options of one history execution (recorded in the trace's `config`).
#[derive(Clone, Copy, Debug, Default)]
pub struct HistOpts {
    pub light: bool,
    /// A and B are built from scratch, independently of each other and of the worker's cached
    /// base context (immune to state that `Context::clone` might share)
    pub fresh: bool,
    /// the CLI's "load units::currencies on demand" switch is on (by-design exception: a failing
    /// input that triggered the load leaves the module loaded; the reference is told so)
    pub currency: bool,
    /// after the run, the successful inputs are replayed by a child process that shares no
    /// memory with this one (process-wide state: statics, thread-locals, lazily built tables),
    /// and its outcomes and final digest must equal the faulted session's
    pub procref: bool,
}

/// Identifiers that trigger on-demand loading: unit names and aliases of units::currencies
/// (same extraction as numbat/build.rs, done by the harness on the module file).
pub fn currency_identifiers() -> Vec<String> {
    let path = format!("{}/units/currencies.nbt", crate::sess::modules_dir());
    let mut out = vec![];
    for line in std::fs::read_to_string(path).unwrap_or_default().lines() {
        let line = line.trim();
        if let Some(rest) = line.strip_prefix("@aliases(") {
            let inner = rest.split(')').next().unwrap_or("");
            for a in inner.split(',') {
                out.push(a.split(':').next().unwrap_or("").trim().to_string());
            }
        } else if let Some(rest) = line.strip_prefix("unit ") {
            out.push(rest.split(':').next().unwrap_or("").trim().to_string());
        }
    }
    out.retain(|s| !s.is_empty());
    out
}

fn mentions_currency(text: &str, ids: &[String]) -> bool {
    // token-wise for alphanumeric identifiers, substring for symbols such as $ or £
    let toks = crate::oracle::identifiers_in(text);
    ids.iter().any(|c| {
        if c.chars().all(|ch| ch.is_alphanumeric() || ch == '_') {
            toks.iter().any(|t| t == c)
        } else {
            text.contains(c.as_str())
        }
    })
}

const CURRENCY_PROBE: &str = "USD";

/// Bring a reference session to the state the by-design exception allows: the currency module
/// is loaded and on-demand loading is switched off (as `interpret_with_settings` does).
fn apply_currency_load(s: &mut Sess) -> bool {
    let o = s.submit("use units::currencies");
    s.ctx.load_currency_module_on_demand(false);
    o.is_ok()
}

pub fn exec_history(
    w: &mut SessWorker,
    opts: HistOpts,
    src: &mut dyn StepSource,
    res: &mut ExecResult,
) -> Vec<Step> {
    let light = opts.light;
    let built = if opts.fresh {
        w.importer.reset_run();
        w.fresh_base(light).and_then(|a| w.fresh_base(light).map(|b| (a, b)))
    } else {
        w.base(light).map(|b| (b.clone(), b))
    };
    let (mut a, mut b) = match built {
        Ok(x) => x,
        Err(e) => {
            res.harness_error = Some(e);
            return vec![];
        }
    };
    if opts.currency {
        a.ctx.load_currency_module_on_demand(true);
        b.ctx.load_currency_module_on_demand(true);
    }
    let currency_ids = if opts.currency { currency_identifiers() } else { vec![] };
    let importer = w.importer.clone();
    let base_names = b.names();
    let mut probes = ProbeSet::default();
    let mut executed: Vec<Step> = vec![];
    let mut fp = Fnv::default();
    let mut ans_defined = false;
    // independent name-set model
    let mut expected: BTreeMap<String, String> = BTreeMap::new();
    let mut attempted_by_failed: BTreeSet<String> = BTreeSet::new();
    let mut since_failure = 99usize;
    let mut faults_fired = 0u64;
    // for the fresh-process reference: (ok in A, currency load triggered, A's outcome text)
    let mut ref_log: Vec<(bool, bool, String)> = vec![];

    let mut k = 0usize;
    while let Some(step) = src.next(&a, &importer) {
        for (n, srcm) in &step.set_modules {
            importer.add_module(n, srcm);
        }
        importer.set_unavailable(&step.unavailable);
        probes.note_input(&step.text);
        for p in &step.probes {
            if !probes.exprs.contains(p) {
                probes.exprs.push(p.clone());
            }
        }
        let mut pre = a.clone();

        importer.set_tag("A");
        let log0 = importer.log_len();
        let oa = a.submit_with(&step.text, step.vm_fault_at, numbat::resolver::CodeSource::Text);
        let log_a = importer.log_since(log0);
        let vm_fired_a = oa.full_text().contains("verif: injected fault");

        importer.set_tag("B");
        let log1 = importer.log_len();
        let mut bt = b.clone();
        let ob = bt.submit_with(&step.text, step.vm_fault_at, numbat::resolver::CodeSource::Text);
        let log_b = importer.log_since(log1);
        importer.set_unavailable(&[]);

        res.bump("inputs");
        res.bump(&format!("stage.{}", oa.stage()));
        fp.write_str(&step.text);
        fp.write_str(&oa.full_text());
        src.feedback(oa.is_ok());
        executed.push(step.clone());

        // -- twin outcome (oracle 2/5: every input yields the same result or error, at first attempt)
        if oa != ob {
            res.fail(
                "twin-outcome-diverged",
                format!(
                    "input {k} `{}`: session with failing history gives {} but the reference session gives {}",
                    step.text.replace('\n', " ⏎ "),
                    oa.full_text(),
                    ob.full_text()
                ),
            );
            break;
        }
        if oa.is_panic() {
            // identical panic on both sides: crash-freedom is C08's subject; stop this run
            if let crate::sess::OutKind::Panic(p) = &oa.kind {
                res.sut_panics.push(p.clone());
            }
            break;
        }
        // -- import accounting (oracle 4): same importer traffic
        let la: Vec<(String, bool)> = log_a.iter().map(|e| (e.module.clone(), e.found)).collect();
        let lb: Vec<(String, bool)> = log_b.iter().map(|e| (e.module.clone(), e.found)).collect();
        if la != lb {
            // Importer traffic is not observable by a user (a cache could legitimately change
            // it), so this is a coverage signal only; the effect of every import is compared
            // through outcomes and digests.
            res.bump("probe.importer_traffic_differs_from_reference");
        }

        let failed = !oa.is_ok();
        ref_log.push((!failed, false, if failed { oa.result_text() } else { oa.full_text() }));
        if opts.currency && failed {
            // By-design exception (lib.rs, on-demand branch): an input whose type check stumbled
            // over a currency identifier loads units::currencies and is then tried again; if it
            // still fails the module stays loaded. The reference learns this from its own trial
            // (never from A), is brought to "module loaded, on-demand off", and the trigger is
            // checked independently: the input must mention a currency identifier.
            let had = b.names().contains(CURRENCY_PROBE);
            let trial_loaded = bt.names().contains(CURRENCY_PROBE);
            if !had && trial_loaded {
                res.bump("probe.currency_loaded_by_failing_input");
                if let Some(l) = ref_log.last_mut() {
                    l.1 = true;
                }
                if !mentions_currency(&step.text, &currency_ids) {
                    res.fail(
                        "currency-load-unwarranted",
                        format!(
                            "failing input {k} `{}` loaded units::currencies although it mentions no currency identifier",
                            step.text.replace('\n', " ⏎ ")
                        ),
                    );
                    break;
                }
                if !apply_currency_load(&mut b) || !apply_currency_load(&mut pre) {
                    res.harness_error = Some("reference could not load units::currencies".into());
                    break;
                }
            }
        }
        if opts.currency && !failed && mentions_currency(&step.text, &currency_ids) {
            res.bump("probe.currency_input_succeeded");
        }
        let label_fault = step.label != "ok";
        if failed != label_fault {
            res.bump("label_mismatch");
            if std::env::var_os("NBSIM_DUMP_MISMATCH").is_some() {
                eprintln!(
                    "[label-mismatch] label={} outcome={} :: {}",
                    step.label,
                    oa.result_text().replace('\n', " ").chars().take(200).collect::<String>(),
                    step.text.replace('\n', " ⏎ ")
                );
            }
        }
        if failed {
            faults_fired += 1;
            since_failure = 0;
            let kind = if label_fault { step.label.as_str() } else { "unplanned" };
            res.bump(&format!("fault.{kind}"));
            if vm_fired_a {
                res.bump("probe.vm_fault_fired");
            }
            if log_a.iter().any(|e| !e.found) {
                res.bump("probe.importer_returned_none");
            }
            let pb = pos_bucket(step.fault_pos, step.n_statements);
            let mut contains = step.contains.clone();
            if contains.is_empty() {
                contains.push("none".into());
            }
            for c in &contains {
                res.cell(&format!("{kind}|{}|{pb}|{c}", oa.stage()));
            }
            if step.contains.iter().any(|c| c == "use") {
                res.bump("probe.failing_input_contained_import");
            }
            if step.contains.iter().any(|c| c == "unit") {
                res.bump("probe.failing_input_contained_unit_definition");
            }
            if !oa.prints.is_empty() {
                res.bump("probe.failing_input_printed_before_failing");
            }
            for (n, _) in &step.defines {
                attempted_by_failed.insert(n.clone());
            }
        } else {
            since_failure += 1;
            b = bt;
            if let crate::sess::OutKind::Ok { value: Some(_), .. } = &oa.kind {
                ans_defined = true;
            }
            for (n, kd) in &step.defines {
                expected.insert(n.clone(), kd.clone());
            }
            if step.features.iter().any(|f| f == "follow-up") {
                res.bump("probe.follow_up_traffic_succeeded");
            }
            if !step.set_modules.is_empty() && step.label == "ok" && step.text.starts_with("use ") && step.n_statements == 1 {
                res.bump("probe.repaired_or_new_module_imported");
            }
        }

        // -- snapshot oracle (1) and twin digest (2)
        let mods_in_step = modules_in(&step.text);
        if failed {
            // re-import probes: modules this input mentioned, plus those it pulled in indirectly
            let mut reimport: Vec<String> = mods_in_step.clone();
            for e in &log_a {
                if e.found && !reimport.contains(&e.module) {
                    reimport.push(e.module.clone());
                }
            }
            reimport.truncate(4);
            let da = digest(&a, &probes, ans_defined, &reimport);
            let dp = digest(&pre, &probes, ans_defined, &reimport);
            res.bump("checks.snapshot");
            if let Some(d) = first_difference(&da, &dp) {
                res.fail(
                    "snapshot-diverged",
                    format!(
                        "after failing input {k} `{}` ({}): session differs from its own state before the input: {d}",
                        step.text.replace('\n', " ⏎ "),
                        oa.result_text()
                    ),
                );
                break;
            }
            // stale name-clash state: names the failed input mentioned must be definable as before
            let mut ids: Vec<String> = crate::oracle::defined_in(&step.text);
            // most recent definitions first: they are the ones nearest to the failure
            ids.reverse();
            let xa = define_probes(&a, &ids);
            let xb = define_probes(&b, &ids);
            if let Some(d) = first_difference(&xa, &xb) {
                res.fail(
                    "twin-diverged",
                    format!(
                        "after failing input {k} `{}`: fresh definitions behave differently: {d}",
                        step.text.replace('\n', " ⏎ ")
                    ),
                );
                break;
            }
        }
        if since_failure <= 2 {
            let reimport: Vec<String> = if failed {
                mods_in_step.iter().take(3).cloned().collect()
            } else {
                vec![]
            };
            let da = digest(&a, &probes, ans_defined, &reimport);
            let db = digest(&b, &probes, ans_defined, &reimport);
            res.bump("checks.twin_digest");
            if let Some(d) = first_difference(&da, &db) {
                res.fail(
                    "twin-diverged",
                    format!(
                        "after input {k} `{}` ({}): faulted session vs reference session: {d}",
                        step.text.replace('\n', " ⏎ "),
                        oa.stage()
                    ),
                );
                break;
            }
        } else {
            let (na, nb) = (a.names(), b.names());
            if let Some(d) = na.diff(&nb) {
                res.fail("twin-diverged", format!("after input {k}: {d}"));
                break;
            }
        }

        // -- name-set model (3)
        let names = a.names();
        for (n, kd) in &expected {
            if !names.contains(n) {
                res.fail(
                    "name-model",
                    format!("after input {k}: {kd} `{n}` was defined by a successful input but is not listed by the session"),
                );
            }
        }
        for n in &attempted_by_failed {
            if !expected.contains_key(n) && !base_names.contains(n) && names.contains(n) {
                res.fail(
                    "name-model",
                    format!("after input {k}: `{n}` was only ever defined by failing inputs but is listed by the session"),
                );
            }
        }
        if res.violation.is_some() {
            break;
        }
        res.states.insert(names.hash());
        k += 1;
    }

    // end of run: full digest including re-import of every module mentioned
    if res.violation.is_none() && !executed.is_empty() && res.sut_panics.is_empty() {
        let reimport: Vec<String> = probes.modules.iter().take(6).cloned().collect();
        let da = digest(&a, &probes, ans_defined, &reimport);
        let db = digest(&b, &probes, ans_defined, &reimport);
        res.bump("checks.final_digest");
        if let Some(d) = first_difference(&da, &db) {
            res.fail(
                "twin-diverged",
                format!("at the end of the history: faulted session vs reference session: {d}"),
            );
        }
        for l in &da {
            fp.write_str(l);
        }
        if opts.procref && res.violation.is_none() && ref_log.len() == executed.len() {
            res.bump("checks.fresh_process_reference");
            let t0 = std::time::Instant::now();
            let child = run_ref_child(opts, &executed, &ref_log, &reimport, ans_defined);
            res.add("fresh_process_reference_ms", t0.elapsed().as_millis() as u64);
            match child {
                Err(e) => res.harness_error = Some(format!("fresh-process reference: {e}")),
                Ok((outs, dref)) => {
                    let want: Vec<&String> = ref_log.iter().map(|l| &l.2).collect();
                    if outs.len() != want.len() {
                        res.harness_error = Some(format!(
                            "fresh-process reference returned {} outcomes for {} inputs",
                            outs.len(),
                            want.len()
                        ));
                    } else if let Some(i) = (0..outs.len()).find(|i| !outs[*i].is_empty() && &outs[*i] != want[*i]) {
                        res.fail(
                            "fresh-process-diverged",
                            format!(
                                "input {i} `{}` gives {} in the session that saw every earlier failing input, but {} in a fresh process to which no failing input was ever submitted",
                                executed[i].text.replace('\n', " ⏎ "),
                                want[i],
                                outs[i]
                            ),
                        );
                    } else if let Some(d) = first_difference(&da, &dref) {
                        res.fail(
                            "fresh-process-diverged",
                            format!("at the end of the history: faulted session vs the successful inputs replayed in a fresh process: {d}"),
                        );
                    }
                }
            }
        }
    }
    res.add("vm_instructions", crate::sess::VM_STEPS_TOTAL.with(|c| c.replace(0)));
    res.add("inputs_including_probes", crate::sess::INPUTS_TOTAL.with(|c| c.replace(0)));
    res.fingerprint = fp.0;
    res.nontrivial = faults_fired > 0 && !expected.is_empty();
    executed
}

/// Parent side of the fresh-process reference: ship the literal steps to a child `nbsim c06-ref`.
fn run_ref_child(
    opts: HistOpts,
    steps: &[Step],
    log: &[(bool, bool, String)],
    reimport: &[String],
    ans_defined: bool,
) -> Result<(Vec<String>, Vec<String>), String> {
    use std::io::Write;
    let req = json!({
        "light": opts.light,
        "currency": opts.currency,
        "reimport": reimport,
        "ans_defined": ans_defined,
        "steps": steps.iter().zip(log.iter()).map(|(s, l)| {
            let mut j = s.to_json();
            j["ok"] = json!(l.0);
            j["currency_loaded"] = json!(l.1);
            j
        }).collect::<Vec<_>>(),
    });
    if let Some(dir) = std::env::var_os("NBSIM_DUMP_REF") {
        let _ = std::fs::write(
            format!("{}/ref-{}.json", dir.to_string_lossy(), crate::rng::fnv_str(&req.to_string())),
            req.to_string(),
        );
    }
    let exe = std::env::current_exe().map_err(|e| e.to_string())?;
    let mut child = std::process::Command::new(exe)
        .arg("c06-ref")
        .stdin(std::process::Stdio::piped())
        .stdout(std::process::Stdio::piped())
        .stderr(std::process::Stdio::null())
        .spawn()
        .map_err(|e| e.to_string())?;
    child
        .stdin
        .take()
        .unwrap()
        .write_all(req.to_string().as_bytes())
        .map_err(|e| e.to_string())?;
    let out = child.wait_with_output().map_err(|e| e.to_string())?;
    let v: Value = serde_json::from_slice(&out.stdout)
        .map_err(|e| format!("child answered {:?} ({e})", String::from_utf8_lossy(&out.stdout).chars().take(200).collect::<String>()))?;
    if let Some(e) = v["error"].as_str() {
        return Err(e.to_string());
    }
    let strs = |k: &str| -> Vec<String> {
        v[k].as_array()
            .map(|a| a.iter().filter_map(|x| x.as_str().map(|s| s.to_string())).collect())
            .unwrap_or_default()
    };
    Ok((strs("outcomes"), strs("digest")))
}

/// Run `f` in a fork()ed copy of this (single-threaded) process and return the text it produces.
fn in_forked_copy(f: impl FnOnce() -> String) -> Result<String, String> {
    use std::io::Read;
    use std::os::fd::FromRawFd;
    let mut fds = [0i32; 2];
    // SAFETY: plain libc calls; the child process only computes, writes to its pipe end and
    // leaves through _exit (no destructors, no stdio buffers of the parent are flushed twice)
    unsafe {
        if libc::pipe(fds.as_mut_ptr()) != 0 {
            return Err("pipe failed".into());
        }
        let pid = libc::fork();
        if pid < 0 {
            return Err("fork failed".into());
        }
        if pid == 0 {
            libc::close(fds[0]);
            let text = f();
            let bytes = text.as_bytes();
            let mut off = 0usize;
            while off < bytes.len() {
                let n = libc::write(fds[1], bytes[off..].as_ptr() as *const libc::c_void, bytes.len() - off);
                if n <= 0 {
                    break;
                }
                off += n as usize;
            }
            libc::close(fds[1]);
            libc::_exit(0);
        }
        libc::close(fds[1]);
        let mut file = std::fs::File::from_raw_fd(fds[0]);
        let mut out = String::new();
        let r = file.read_to_string(&mut out);
        let mut status = 0i32;
        libc::waitpid(pid, &mut status, 0);
        if r.is_err() {
            return Err("cannot read the forked copy's answer".into());
        }
        if !libc::WIFEXITED(status) || libc::WEXITSTATUS(status) != 0 {
            return Err(format!("forked copy ended abnormally (status {status}); partial answer {out:?}"));
        }
        Ok(out)
    }
}

/// Child side: a from-scratch session in a process of its own receives the module
/// registrations of every step in order, but only the inputs that succeeded in the parent.
pub fn ref_child_main() -> i32 {
    use std::io::Read;
    let mut text = String::new();
    if std::io::stdin().read_to_string(&mut text).is_err() {
        return 2;
    }
    let Ok(req) = serde_json::from_str::<Value>(&text) else {
        println!("{}", json!({"error": "cannot parse request"}));
        return 2;
    };
    let light = req["light"].as_bool().unwrap_or(false);
    let mut w = SessWorker::new();
    let mut s = match w.fresh_base(light) {
        Ok(s) => s,
        Err(e) => {
            println!("{}", json!({"error": e}));
            return 2;
        }
    };
    if req["currency"].as_bool().unwrap_or(false) {
        s.ctx.load_currency_module_on_demand(true);
    }
    let mut probes = ProbeSet::default();
    let mut outcomes: Vec<String> = vec![];
    let empty = vec![];
    for st in req["steps"].as_array().unwrap_or(&empty) {
        let step = Step::from_json(st);
        for (n, src) in &step.set_modules {
            w.importer.add_module(n, src);
        }
        probes.note_input(&step.text);
        for p in &step.probes {
            if !probes.exprs.contains(p) {
                probes.exprs.push(p.clone());
            }
        }
        if st["ok"].as_bool().unwrap_or(false) {
            w.importer.set_unavailable(&step.unavailable);
            let o = s.submit_with(&step.text, step.vm_fault_at, numbat::resolver::CodeSource::Text);
            w.importer.set_unavailable(&[]);
            outcomes.push(o.full_text());
        } else if step.label != "ok" && !step.features.iter().any(|f| f == "follow-up") {
            // a planned fault: fails by construction in every world; not evaluated here at all
            // (a fork costs ~0.3 s of copy-on-write faults), its slot stays empty
            outcomes.push(String::new());
            if st["currency_loaded"].as_bool().unwrap_or(false) {
                apply_currency_load(&mut s);
            }
        } else {
            // An input that failed in the parent although the generator expected it to succeed
            // (or that follows up on an earlier failure) is a possible VICTIM of state leaked by
            // an earlier failing input. It is "never submitted" here in the strongest
            // sense: it is evaluated by a fork()ed copy of this process (copy-on-write image of
            // the whole process state, statics and thread-locals included), which reports the
            // outcome through a pipe and exits. This process itself never executes it.
            match in_forked_copy(|| {
                w.importer.set_unavailable(&step.unavailable);
                s.submit_with(&step.text, step.vm_fault_at, numbat::resolver::CodeSource::Text)
                    .result_text()
            }) {
                Ok(t) => outcomes.push(t),
                Err(e) => {
                    println!("{}", json!({"error": e}));
                    return 2;
                }
            }
            if st["currency_loaded"].as_bool().unwrap_or(false) {
                apply_currency_load(&mut s);
            }
        }
    }
    let reimport: Vec<String> = req["reimport"]
        .as_array()
        .map(|a| a.iter().filter_map(|x| x.as_str().map(|s| s.to_string())).collect())
        .unwrap_or_default();
    let d = digest(&s, &probes, req["ans_defined"].as_bool().unwrap_or(false), &reimport);
    println!("{}", json!({"outcomes": outcomes, "digest": d}));
    0
}

pub fn trace_json(prop: &str, opts: HistOpts, faults: bool, steps: &[Step]) -> Value {
    json!({
        "format": 1,
        "property": prop,
        "config": {"base": if opts.light {"light"} else {"prelude"}, "fresh": opts.fresh, "currency_on_demand": opts.currency, "fresh_process_reference": opts.procref, "faults": faults, "exchange_rates": "test", "step_budget": crate::sess::STEP_BUDGET},
        "steps": steps.iter().map(|s| s.to_json()).collect::<Vec<_>>(),
    })
}

/// Generic shrinker for step-list traces: drop steps (chunks, then singles), drop statements
/// inside an input, drop fault directives.
pub fn shrink_steps(trace: &Value) -> Vec<Value> {
    let Some(steps) = trace["steps"].as_array() else {
        return vec![];
    };
    let n = steps.len();
    let mut out = vec![];
    let mk = |v: Vec<Value>| {
        let mut t = trace.clone();
        t["steps"] = Value::Array(v);
        t
    };
    let mut chunk = n / 2;
    while chunk >= 1 {
        let mut start = 0;
        while start < n {
            let end = (start + chunk).min(n);
            let mut v = steps[..start].to_vec();
            // keep module registrations of dropped steps alive: move them to the next step
            let mut carried = serde_json::Map::new();
            for s in &steps[start..end] {
                if let Some(o) = s["set_modules"].as_object() {
                    for (k, val) in o {
                        carried.insert(k.clone(), val.clone());
                    }
                }
            }
            let mut rest = steps[end..].to_vec();
            if !carried.is_empty()
                && let Some(first) = rest.first_mut()
            {
                let mut merged = carried.clone();
                if let Some(o) = first["set_modules"].as_object() {
                    for (k, val) in o {
                        merged.insert(k.clone(), val.clone());
                    }
                }
                first["set_modules"] = Value::Object(merged);
            }
            v.extend(rest);
            if v.len() < n {
                out.push(mk(v));
            }
            start += chunk;
        }
        if chunk == 1 {
            break;
        }
        chunk /= 2;
    }
    // drop single statements inside an input
    for i in 0..n {
        if let Some(text) = steps[i]["text"].as_str() {
            let lines: Vec<&str> = text.lines().collect();
            if lines.len() > 1 {
                for j in (0..lines.len()).rev() {
                    // a decorator line belongs to the following statement
                    if lines[j].starts_with('@') {
                        continue;
                    }
                    let mut l2 = lines.clone();
                    l2.remove(j);
                    // decorators that decorated the removed statement go with it
                    let mut jj = j;
                    while jj > 0 && l2[jj - 1].starts_with('@') {
                        l2.remove(jj - 1);
                        jj -= 1;
                    }
                    let mut t = trace.clone();
                    t["steps"][i]["text"] = json!(l2.join("\n"));
                    out.push(t);
                }
            }
        }
        if !steps[i]["vm_fault_at"].is_null() {
            let mut t = trace.clone();
            t["steps"][i].as_object_mut().unwrap().remove("vm_fault_at");
            out.push(t);
        }
        if steps[i]["unavailable"].is_array() {
            let mut t = trace.clone();
            t["steps"][i].as_object_mut().unwrap().remove("unavailable");
            out.push(t);
        }
    }
    out
}

pub struct C06;

impl Prop for C06 {
    type Worker = SessWorker;
    fn id(&self) -> &'static str {
        "C06"
    }
    fn new_worker(&self) -> SessWorker {
        SessWorker::new()
    }
    fn runs(&self, tier: Tier) -> u64 {
        match tier {
            Tier::Quick => 5_000,
            Tier::Thorough => 150_000,
        }
    }
    fn recycle_every(&self) -> u64 {
        4_000
    }
    fn run(&self, w: &mut SessWorker, seed: u64, run: u64, _tier: Tier) -> (Value, ExecResult) {
        let mut rng = Rng::new(seed);
        // sub-batches: 1 run in 8 is fault-free (the relaxation-free control configuration)
        let faults = run % 8 != 7;
        // sub-batches: 1 run in 16 with the CLI's currency on-demand loading switched on (prelude
        // base), 1 run in 16 with both sessions built from scratch
        let currency = run % 16 == 5;
        let fresh = run % 16 == 11;
        let light = rng.chance(0.5) && !currency;
        // 1 run in 8 is also replayed (successful inputs only) in a fresh process
        let procref = run % 8 == 3 && std::env::var_os("NBSIM_NO_PROCREF").is_none();
        let opts = HistOpts { light, fresh, currency, procref };
        let real = w.real_modules(light);
        let mut cfg = Gen::swarm_cfg(&mut rng, faults, real);
        cfg.light_base = light;
        cfg.currency = currency;
        let n_inputs = rng.range(4, 40) as usize;
        let generator = Gen::new(rng.fork(), cfg);
        let mut src = GenSource {
            generator,
            remaining: n_inputs,
        };
        let mut res = ExecResult::default();
        res.bump(if faults { "runs.fault-injecting" } else { "runs.fault-free" });
        if currency {
            res.bump("runs.currency-on-demand");
        }
        if fresh {
            res.bump("runs.from-scratch-sessions");
        }
        if procref {
            res.bump("runs.fresh-process-reference");
        }
        let steps = exec_history(w, opts, &mut src, &mut res);
        (trace_json("C06", opts, faults, &steps), res)
    }
    fn exec(&self, w: &mut SessWorker, trace: &Value) -> ExecResult {
        let opts = HistOpts {
            light: trace["config"]["base"].as_str() == Some("light"),
            fresh: trace["config"]["fresh"].as_bool().unwrap_or(false),
            currency: trace["config"]["currency_on_demand"].as_bool().unwrap_or(false),
            procref: trace["config"]["fresh_process_reference"].as_bool().unwrap_or(false),
        };
        let steps: Vec<Step> = trace["steps"]
            .as_array()
            .map(|a| a.iter().map(Step::from_json).collect())
            .unwrap_or_default();
        let mut src = ReplaySource { steps, i: 0 };
        let mut res = ExecResult::default();
        res.bump(if trace["config"]["faults"].as_bool().unwrap_or(true) {
            "runs.fault-injecting"
        } else {
            "runs.fault-free"
        });
        exec_history(w, opts, &mut src, &mut res);
        res
    }
    fn shrink(&self, trace: &Value) -> Vec<Value> {
        shrink_steps(trace)
    }
    fn rule(&self) -> String {
        "Each run is a seeded session history of 4-40 inputs (1-6 statements each; per-run swarm mix of 24 \
         statement kinds: let/annotated let/aliases, fn annotated/inferred/generic/where/recursive, function \
         values, dimensions, base and derived units with prefixes and aliases, structs, lists, use of synthetic \
         and real modules, expressions, ans/_, print, assert/assert_eq/type, redefinitions, follow-up traffic on \
         what a failed input touched) over a prelude or light base context; 7 runs in 8 inject failing inputs \
         (rate 5-40 %) of kinds parse, unknown-module, module-unavailable, broken-module (parse/type/run-time \
         error or missing nested import inside a synthetic module, later repaired), name-clash, type-error, \
         runtime-error (call depth 0-5) and vm-fault (run-time error raised at a seeded VM instruction), placed \
         at a seeded statement position after a successful prefix; 1 run in 8 is fault-free; 1 in 16 builds both \
         sessions from scratch; 1 in 16 runs with currency on-demand loading on and currency identifiers in the \
         workload; 1 in 16 is additionally replayed in a fresh process (failing inputs evaluated by fork()ed copies); \
         30 % of the runs carry comments, blank lines and Unicode operator spellings. A run is \
         non-trivial if at least one input actually failed AND at least one definition made by a successful \
         input survived to the end. Distinct = distinct fingerprint over (input texts, outcomes, final digest)."
            .to_string()
    }
    fn expected_probes(&self) -> Vec<&'static str> {
        vec![
            "fault.parse",
            "fault.unknown-module",
            "fault.module-unavailable",
            "fault.broken-module",
            "fault.name-clash",
            "fault.type-error",
            "fault.runtime-error",
            "fault.vm-fault",
            "stage.resolve",
            "stage.parse",
            "stage.name",
            "stage.type",
            "stage.runtime",
            "probe.vm_fault_fired",
            "probe.importer_returned_none",
            "probe.failing_input_contained_import",
            "probe.failing_input_contained_unit_definition",
            "probe.failing_input_printed_before_failing",
            "probe.follow_up_traffic_succeeded",
            "probe.repaired_or_new_module_imported",
            "probe.currency_loaded_by_failing_input",
            "probe.currency_input_succeeded",
            "runs.fault-free",
            "runs.currency-on-demand",
            "runs.from-scratch-sessions",
            "runs.fresh-process-reference",
        ]
    }
    fn assumptions(&self) -> Vec<String> {
        vec![
            "Context::clone is faithful (the reference session tries each input on a clone); checked separately by C07 fork mode".into(),
            "observation channel is numbat's own Display of values, types, errors and `info` texts; source labels are never compared".into(),
            "currency on-demand loading (CLI only) is enabled in 1 run of 16; there a failing input that triggered the load is, by design, equivalent to `use units::currencies` and the reference is brought to that state (the trigger is checked independently: the input must mention a currency identifier)".into(),
            "now(), random(), args() and the local time zone are never generated; exchange rates are numbat's test stub (1.0)".into(),
        ]
    }
    fn extra_evidence(&self, _tier: Tier) -> Value {
        json!({
            "components": {
                "real": ["resolver, tokenizer, parser, prefix transformer, type checker, bytecode compiler, VM, FFI (current /repo working tree, feature verif-hooks)", "standard-library modules read from /repo/numbat/modules at run time"],
                "stub": ["module importer (SimImporter: real files + synthetic modules + unavailability)", "exchange rates (numbat's own test stub)", "print sink (capture buffer)"]
            },
            "simulated_time": "logical: inputs submitted and VM instructions executed (counters `inputs_including_probes`, `vm_instructions`); the code has no timers",
        })
    }
}
