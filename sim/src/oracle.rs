//! Observational digest of a session (DESIGN §2.5): what a user could find out about the
//! session without changing it. All probing happens on clones.

use std::collections::BTreeSet;

use crate::sess::{OutKind, Sess};

#[derive(Clone, Debug, Default)]
pub struct ProbeSet {
    /// identifiers ever mentioned by any input of the run (successful or not)
    pub names: BTreeSet<String>,
    /// extra expressions (calls of generated functions, unit conversions)
    pub exprs: Vec<String>,
    /// modules ever mentioned in a `use`
    pub modules: BTreeSet<String>,
}

pub fn identifiers_in(text: &str) -> Vec<String> {
    let mut out = vec![];
    let mut cur = String::new();
    let mut in_string = false;
    for c in text.chars() {
        if c == '"' {
            in_string = !in_string;
        }
        if c.is_alphanumeric() || c == '_' {
            cur.push(c);
        } else {
            if !cur.is_empty() && !cur.chars().next().unwrap().is_ascii_digit() {
                out.push(std::mem::take(&mut cur));
            }
            cur.clear();
        }
        let _ = in_string;
    }
    if !cur.is_empty() && !cur.chars().next().unwrap().is_ascii_digit() {
        out.push(cur);
    }
    out
}

pub fn modules_in(text: &str) -> Vec<String> {
    let mut out = vec![];
    for line in text.lines() {
        let l = line.trim();
        if let Some(rest) = l.strip_prefix("use ") {
            let m = rest.trim();
            if !m.is_empty() && m.chars().all(|c| c.is_alphanumeric() || c == '_' || c == ':') {
                out.push(m.to_string());
            }
        }
    }
    out
}

const KEYWORDS: &[&str] = &[
    "let", "fn", "unit", "dimension", "struct", "use", "if", "then", "else", "where", "and",
    "true", "false", "print", "assert", "assert_eq", "type", "to", "per", "NaN", "inf", "ans",
    "Scalar", "Bool", "String", "List", "Fn", "Dim", "DateTime", "T", "long", "short", "both",
    "none", "aliases", "metric_prefixes", "binary_prefixes", "name", "url", "description",
    "example",
];

impl ProbeSet {
    pub fn note_input(&mut self, text: &str) {
        for id in identifiers_in(text) {
            if !KEYWORDS.contains(&id.as_str()) && id.len() < 40 {
                self.names.insert(id);
            }
        }
        for m in modules_in(text) {
            self.modules.insert(m);
        }
    }
}

/// One observation line per probe. Two sessions are observationally equal iff their digests
/// are equal.
pub fn digest(sess: &Sess, probes: &ProbeSet, ans_hint: bool, reimport: &[String]) -> Vec<String> {
    let mut out = vec![];
    let names = sess.names();
    out.push(format!("variables: {}", names.variables.join(",")));
    out.push(format!("functions: {}", names.functions.join(",")));
    out.push(format!("units: {}", names.units.join(",")));
    out.push(format!("dimensions: {}", names.dimensions.join(",")));

    // variables: value and type, batched
    let vars: Vec<&String> = probes
        .names
        .iter()
        .filter(|n| names.variables.iter().any(|v| v == *n))
        .collect();
    let mut batch: Vec<String> = vec![];
    let mut labels: Vec<String> = vec![];
    for v in &vars {
        batch.push(format!("print({v})"));
        labels.push(format!("value {v}"));
        batch.push(format!("type({v})"));
        labels.push(format!("type {v}"));
    }
    for e in &probes.exprs {
        // only expressions all of whose identifiers exist here can be batched
        let ids = identifiers_in(e);
        if ids.iter().all(|i| names.contains(i) || KEYWORDS.contains(&i.as_str()) || is_builtin_word(i)) {
            batch.push(format!("print({e})"));
            labels.push(format!("expr {e}"));
        } else {
            out.push(format!("expr {e}: <not applicable>"));
        }
    }
    if ans_hint {
        batch.push("print(ans)".into());
        labels.push("value ans".into());
        batch.push("type(ans)".into());
        labels.push("type ans".into());
    }
    // one clone serves the batch, the `info` texts and the `ans` probe: none of them defines anything
    let mut c = sess.clone();
    if !batch.is_empty() {
        let o = c.submit(&batch.join("\n"));
        if o.is_ok() && o.prints.len() == labels.len() {
            for (l, p) in labels.iter().zip(o.prints.iter()) {
                out.push(format!("{l}: {p}"));
            }
        } else {
            // fall back to one probe per input so that one bad probe does not hide the others
            for (l, b) in labels.iter().zip(batch.iter()) {
                let mut c = sess.clone();
                let o = c.submit(b);
                match &o.kind {
                    OutKind::Ok { .. } => out.push(format!("{l}: {}", o.prints.join("|"))),
                    _ => out.push(format!("{l}: {}", o.result_text())),
                }
            }
        }
    }
    // functions, units, dimensions: the `info` text (signature, defining unit, base representation)
    for n in &probes.names {
        let is_fn = names.functions.iter().any(|v| v == n);
        let is_dim = names.dimensions.iter().any(|v| v == n);
        let is_unit = names.units.iter().any(|u| u.split('|').any(|x| x == n));
        if is_fn || is_dim || is_unit {
            let ctx = &mut c.ctx;
            crate::sess::hook_idle();
            let r = crate::sess::trap(|| ctx.print_info_for_keyword(n).to_string());
            match r {
                Ok(s) => out.push(format!("info {n}: {}", s.replace('\n', " ⏎ "))),
                Err(p) => out.push(format!("info {n}: PANIC {p}")),
            }
        }
    }

    if !ans_hint {
        let o = c.submit("ans");
        out.push(format!("ans: {}", o.result_text()));
    }

    // everything else a front end can ask the session (listing, function and unit metadata,
    // completions, base units): one hash line; the detailed lines are kept per thread so that a
    // mismatch can be reported precisely (see `first_difference`)
    if std::env::var_os("NBSIM_NO_ENV").is_none() {
        out.push(env_line(sess));
    }

    // re-import probes: importing the module (again) on a clone must have the same effect
    for m in reimport {
        let mut c = sess.clone();
        let o = c.submit(&format!("use {m}"));
        let h = c.names().hash();
        out.push(format!("reimport {m}: {} names-hash={h:016x}", o.result_text()));
    }
    out
}

thread_local! {
    static ENV_DETAIL: std::cell::RefCell<Vec<(u64, Vec<String>)>> = const { std::cell::RefCell::new(Vec::new()) };
}

/// Detailed, sorted lines of what the read-only front-end API reports about a session:
/// `print_environment` (the `list` command), `functions()` (name, signature, description, url,
/// examples), `unit_representations()` (base representation and metadata), `base_units()`,
/// and the completion candidates. Internal ids (code sources) are left out; orders that come from
/// hash maps are sorted.
pub fn env_lines(sess: &Sess) -> Vec<String> {
    let ctx = &sess.ctx;
    let mut out: Vec<String> = vec![];
    match crate::sess::trap(|| ctx.print_environment().to_string()) {
        Ok(s) => {
            let mut f = crate::rng::Fnv::default();
            f.write_str(&s);
            out.push(format!("listing-hash {:016x}", f.0));
        }
        Err(p) => out.push(format!("listing PANIC {p}")),
    }
    match crate::sess::trap(|| {
        let mut v: Vec<String> = ctx
            .functions()
            .map(|f| {
                format!(
                    "function {} name={:?} sig={} desc={:?} url={:?} examples={:?}",
                    f.fn_name, f.name, f.signature_str, f.description, f.url, f.examples
                )
            })
            .collect();
        v.sort();
        v
    }) {
        Ok(v) => out.extend(v),
        Err(p) => out.push(format!("functions() PANIC {p}")),
    }
    match crate::sess::trap(|| {
        let mut v: Vec<String> = ctx
            .unit_representations()
            .map(|(name, (base, meta))| {
                format!(
                    "unit {name} base={base} type={} aliases={:?} name={:?} canonical={:?} url={:?} desc={:?} bin={} metric={} abbrev={}",
                    meta.readable_type.to_string().trim(),
                    meta.aliases,
                    meta.name,
                    meta.canonical_name,
                    meta.url,
                    meta.description,
                    meta.binary_prefixes,
                    meta.metric_prefixes,
                    meta.is_abbreviation
                )
            })
            .collect();
        v.sort();
        v
    }) {
        Ok(v) => out.extend(v),
        Err(p) => out.push(format!("unit_representations() PANIC {p}")),
    }
    match crate::sess::trap(|| {
        let mut v: Vec<String> = ctx.base_units().map(|s| s.to_string()).collect();
        v.sort();
        v.join(",")
    }) {
        Ok(s) => out.push(format!("base-units {s}")),
        Err(p) => out.push(format!("base_units() PANIC {p}")),
    }
    match crate::sess::trap(|| {
        let mut f = crate::rng::Fnv::default();
        let mut n = 0usize;
        for w in ctx.get_completions_for("", true) {
            f.write_str(&w);
            n += 1;
        }
        (n, f.0)
    }) {
        Ok((n, h)) => out.push(format!("completions n={n} hash={h:016x}")),
        Err(p) => out.push(format!("get_completions_for PANIC {p}")),
    }
    out
}

pub fn env_line(sess: &Sess) -> String {
    let lines = env_lines(sess);
    let mut f = crate::rng::Fnv::default();
    for l in &lines {
        f.write_str(l);
    }
    let h = f.0;
    ENV_DETAIL.with(|d| {
        let mut d = d.borrow_mut();
        if !d.iter().any(|(k, _)| *k == h) {
            if d.len() >= 6 {
                d.remove(0);
            }
            d.push((h, lines));
        }
    });
    format!("env: {h:016x}")
}

fn env_detail_diff(x: &str, y: &str) -> Option<String> {
    let hx = u64::from_str_radix(x.strip_prefix("env: ")?, 16).ok()?;
    let hy = u64::from_str_radix(y.strip_prefix("env: ")?, 16).ok()?;
    ENV_DETAIL.with(|d| {
        let d = d.borrow();
        let a = &d.iter().find(|(k, _)| *k == hx)?.1;
        let b = &d.iter().find(|(k, _)| *k == hy)?.1;
        let sa: BTreeSet<&String> = a.iter().collect();
        let sb: BTreeSet<&String> = b.iter().collect();
        let only_a: Vec<&&String> = sa.difference(&sb).take(2).collect();
        let only_b: Vec<&&String> = sb.difference(&sa).take(2).collect();
        Some(format!("environment differs: only-left={only_a:?} only-right={only_b:?}"))
    })
}

fn is_builtin_word(s: &str) -> bool {
    matches!(
        s,
        "m" | "s" | "kg" | "cm" | "km" | "mm" | "g" | "min" | "ms" | "meter" | "second" | "gram"
    )
}

pub fn first_difference(a: &[String], b: &[String]) -> Option<String> {
    for i in 0..a.len().max(b.len()) {
        let x = a.get(i).map(|s| s.as_str()).unwrap_or("<missing>");
        let y = b.get(i).map(|s| s.as_str()).unwrap_or("<missing>");
        if x != y {
            if let Some(d) = env_detail_diff(x, y) {
                return Some(d);
            }
            let short = |s: &str| -> String {
                if s.len() > 400 {
                    // show the region around the first differing byte
                    let k = x
                        .bytes()
                        .zip(y.bytes())
                        .position(|(p, q)| p != q)
                        .unwrap_or(0);
                    let mut start = k.saturating_sub(80);
                    while !s.is_char_boundary(start) {
                        start -= 1;
                    }
                    let mut end = (k + 160).min(s.len());
                    while !s.is_char_boundary(end) {
                        end += 1;
                    }
                    format!("…{}…", &s[start.min(s.len())..end])
                } else {
                    s.to_string()
                }
            };
            return Some(format!("left `{}` right `{}`", short(x), short(y)));
        }
    }
    None
}

/// Names a piece of text tries to define (tokens after let/fn/unit/dimension/struct).
pub fn defined_in(text: &str) -> Vec<String> {
    let toks = identifiers_in(text);
    let mut out = vec![];
    for w in toks.windows(2) {
        if matches!(w[0].as_str(), "let" | "fn" | "unit" | "dimension" | "struct") && !out.contains(&w[1]) {
            out.push(w[1].clone());
        }
    }
    out
}

/// Probes that try to define a name afresh (detects stale name-clash state after a failure).
pub fn define_probes(sess: &Sess, names: &[String]) -> Vec<String> {
    let mut out = vec![];
    let ns = sess.names();
    for n in names.iter().filter(|n| !ns.contains(n)).take(2) {
        for form in [format!("let {n} = 1"), format!("unit {n}")] {
            let mut c = sess.clone();
            let o = c.submit(&form);
            out.push(format!("define `{form}`: {}", o.result_text()));
        }
    }
    out
}
