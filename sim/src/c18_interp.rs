//! C18 level 2 — the list representation driven through the interpreter: list globals in
//! several sessions (sessions are cloned mid-way, so list storage is shared *across sessions*),
//! list FFI (`cons`, `cons_end`, `head`, `tail`, `len`), list literals (`Op::BuildList`), `==`
//! and the `core::lists` library functions. Reference model: `Vec<i64>` per global.

use std::collections::BTreeMap;

use serde_json::{Value, json};

use crate::engine::ExecResult;
use crate::rng::{Fnv, Rng};
use crate::sess::{Sess, SimImporter};

thread_local! {
    /// "unit mode" of the current trace: elements are lengths written in two different units
    /// (`3 m` / `300 cm`), i.e. values that are `==` for numbat but print differently
    static UNITS: std::cell::Cell<bool> = const { std::cell::Cell::new(false) };
    /// "string mode": elements are strings (a non-scalar element type; `split` builds lists
    /// through the VM's conversion from a deque of values)
    static STRINGS: std::cell::Cell<bool> = const { std::cell::Cell::new(false) };
}

fn units_mode() -> bool {
    UNITS.with(|u| u.get())
}

fn strings_mode() -> bool {
    STRINGS.with(|u| u.get())
}

/// unit mode or string mode: only structural list operations make sense
fn structural_mode() -> bool {
    units_mode() || strings_mode()
}

/// Element text. Unit mode: x >= 0 is `x m`, x < 0 is `-x cm`.
fn el(x: i64) -> String {
    if strings_mode() {
        format!("\"e{x}\"")
    } else if !units_mode() {
        x.to_string()
    } else if x >= 0 {
        format!("{x} m")
    } else {
        format!("{} cm", -x)
    }
}

/// Physical value (in cm) of a unit-mode element; equality of numbat quantities is by this.
fn phys(x: i64) -> i64 {
    if !units_mode() {
        x
    } else if x >= 0 {
        x * 100
    } else {
        -x
    }
}

/// The same length written in the other unit (if it can be written exactly).
fn twin(x: i64) -> i64 {
    if x > 0 {
        -(x * 100)
    } else if x < 0 && (-x) % 100 == 0 {
        (-x) / 100
    } else {
        x
    }
}

pub struct InterpWorker {
    pub importer: SimImporter,
    base: Option<Sess>,
}

impl InterpWorker {
    pub fn new() -> Self {
        InterpWorker {
            importer: SimImporter::new(),
            base: None,
        }
    }
    pub fn base(&mut self) -> Result<Sess, String> {
        if self.base.is_none() {
            let mut s = Sess::new(self.importer.clone());
            let o = s.submit("use core::lists\nuse units::si\nfn vf_inc(x) = x + 1\nfn vf_odd(x) = mod(x, 2) == 1");
            if !o.is_ok() {
                return Err(format!("could not load core::lists: {}", o.full_text()));
            }
            self.base = Some(s);
        }
        Ok(self.base.clone().unwrap())
    }
}

/// List-valued expression tree (JSON arrays): evaluated by the model and rendered to numbat.
///   ["lit", [..]] ["var", name] ["cons", v, e] ["cons_end", v, e] ["tail", e] ["concat", e, e]
///   ["take", n, e] ["drop", n, e] ["reverse", e] ["range", a, b] ["map_inc", e]
///   ["filter_odd", e] ["sort", e] ["unique", e] ["intersperse", v, e] ["if_empty", e, e, e]
fn eval_list(e: &Value, env: &BTreeMap<String, Vec<i64>>) -> Option<Result<Vec<i64>, ()>> {
    // Some(Err(())) = the model says this is a run-time error (tail of empty list)
    let a = e.as_array()?;
    let op = a.first()?.as_str()?;
    let sub = |k: usize| eval_list(a.get(k)?, env);
    let num = |k: usize| a.get(k).and_then(|x| x.as_i64());
    macro_rules! tr {
        ($x:expr) => {
            match $x? {
                Ok(v) => v,
                Err(()) => return Some(Err(())),
            }
        };
    }
    Some(Ok(match op {
        "lit" => a
            .get(1)?
            .as_array()?
            .iter()
            .filter_map(|x| x.as_i64())
            .collect(),
        "var" => env.get(a.get(1)?.as_str()?)?.clone(),
        "split" => a
            .get(1)?
            .as_array()?
            .iter()
            .filter_map(|x| x.as_i64())
            .collect(),
        "cons" => {
            let mut v = tr!(sub(2));
            v.insert(0, num(1)?);
            v
        }
        "cons_end" => {
            let mut v = tr!(sub(2));
            v.push(num(1)?);
            v
        }
        "tail" => {
            let mut v = tr!(sub(1));
            if v.is_empty() {
                return Some(Err(()));
            }
            v.remove(0);
            v
        }
        "concat" => {
            let mut v = tr!(sub(1));
            v.extend(tr!(sub(2)));
            v
        }
        "take" => {
            let v = tr!(sub(2));
            let n = num(1)?.max(0) as usize;
            v.into_iter().take(n).collect()
        }
        "drop" => {
            let v = tr!(sub(2));
            let n = num(1)?.max(0) as usize;
            v.into_iter().skip(n).collect()
        }
        "reverse" => {
            let mut v = tr!(sub(1));
            v.reverse();
            v
        }
        "range" => {
            let (s, e) = (num(1)?, num(2)?);
            if s > e { vec![] } else { (s..=e).collect() }
        }
        "map_inc" => tr!(sub(1)).into_iter().map(|x| x + 1).collect(),
        "filter_odd" => tr!(sub(1))
            .into_iter()
            .filter(|x| x.rem_euclid(2) == 1)
            .collect(),
        "sort" => {
            let mut v = tr!(sub(1));
            v.sort();
            v
        }
        "unique" => {
            let v = tr!(sub(1));
            let mut out: Vec<i64> = vec![];
            for x in v {
                if !out.contains(&x) {
                    out.push(x);
                }
            }
            out
        }
        "intersperse" => {
            let v = tr!(sub(2));
            let s = num(1)?;
            let mut out = vec![];
            for (i, x) in v.iter().enumerate() {
                if i > 0 {
                    out.push(s);
                }
                out.push(*x);
            }
            out
        }
        "if_empty" => {
            let c = tr!(sub(1));
            if c.is_empty() {
                tr!(sub(2))
            } else {
                tr!(sub(3))
            }
        }
        _ => return None,
    }))
}

fn render_list(e: &Value) -> String {
    let a = e.as_array().unwrap();
    let op = a[0].as_str().unwrap();
    let r = |k: usize| render_list(&a[k]);
    let n = |k: usize| a[k].as_i64().unwrap();
    match op {
        "lit" => format!(
            "[{}]",
            a[1].as_array()
                .unwrap()
                .iter()
                .map(|x| el(x.as_i64().unwrap()))
                .collect::<Vec<_>>()
                .join(", ")
        ),
        "var" => a[1].as_str().unwrap().to_string(),
        "split" => format!(
            "split(\"{}\", \",\")",
            a[1].as_array()
                .unwrap()
                .iter()
                .map(|x| format!("e{}", x.as_i64().unwrap()))
                .collect::<Vec<_>>()
                .join(",")
        ),
        "cons" => format!("cons({}, {})", el(n(1)), r(2)),
        "cons_end" => format!("cons_end({}, {})", el(n(1)), r(2)),
        "tail" => format!("tail({})", r(1)),
        "concat" => format!("concat({}, {})", r(1), r(2)),
        "take" => format!("take({}, {})", n(1), r(2)),
        "drop" => format!("drop({}, {})", n(1), r(2)),
        "reverse" => format!("reverse({})", r(1)),
        "range" => format!("range({}, {})", n(1), n(2)),
        "map_inc" => format!("map(vf_inc, {})", r(1)),
        "filter_odd" => format!("filter(vf_odd, {})", r(1)),
        "sort" => format!("sort({})", r(1)),
        "unique" => format!("unique({})", r(1)),
        "intersperse" => format!("intersperse({}, {})", el(n(1)), r(2)),
        "if_empty" => format!("(if is_empty({}) then {} else {})", r(1), r(2), r(3)),
        _ => "[]".into(),
    }
}

thread_local! {
    static RENDER_SESS: std::cell::RefCell<Option<Sess>> = const { std::cell::RefCell::new(None) };
    static RENDER: std::cell::RefCell<std::collections::HashMap<String, String>> = std::cell::RefCell::new(std::collections::HashMap::new());
}

/// How numbat itself prints the value of a closed literal expression (`7`, `3 m`, `1 == 2`).
/// The property is about which elements a list holds, not about number formatting, so the
/// model's expectation is spelled the way the interpreter under test spells scalars.
fn shown(expr: &str) -> String {
    if let Some(t) = RENDER.with(|r| r.borrow().get(expr).cloned()) {
        return t;
    }
    let t = RENDER_SESS.with(|s| {
        let s = s.borrow();
        let Some(base) = s.as_ref() else {
            return expr.to_string();
        };
        let mut c = base.clone();
        let o = c.submit(&format!("print({expr})"));
        if o.is_ok() && o.prints.len() == 1 {
            o.prints[0].clone()
        } else {
            expr.to_string()
        }
    });
    RENDER.with(|r| r.borrow_mut().insert(expr.to_string(), t.clone()));
    t
}

fn shown_bool(b: bool) -> String {
    shown(if b { "1 == 1" } else { "1 == 2" })
}

/// How numbat prints `expr` as an element of a list (strings are quoted there, not by `print`).
fn shown_in_list(expr: &str) -> String {
    let t = shown(&format!("[{expr}]"));
    t.strip_prefix('[').and_then(|x| x.strip_suffix(']')).map(|x| x.to_string()).unwrap_or(t)
}

fn fmt_list(v: &[i64]) -> String {
    format!("[{}]", v.iter().map(|x| shown_in_list(&el(*x))).collect::<Vec<_>>().join(", "))
}

type Env = BTreeMap<String, Vec<i64>>;
type NEnv = BTreeMap<String, Vec<Vec<i64>>>;

fn fmt_nested(v: &[Vec<i64>]) -> String {
    format!("[{}]", v.iter().map(|x| fmt_list(x)).collect::<Vec<_>>().join(", "))
}

enum NestOut {
    Flat(Vec<i64>),
    Nested(Vec<Vec<i64>>),
}

/// Model and numbat text of a nested-list step. None: refers to something that does not exist.
/// Some((text, Err(()))): the model says the expression fails at run time.
fn nested_step(st: &Value, env: &Env, nenv: &NEnv) -> Option<(String, Result<NestOut, ()>)> {
    let name = st["name"].as_str()?;
    match st["op"].as_str()? {
        "nest" => {
            let parts: Vec<&str> = st["parts"].as_array()?.iter().filter_map(|x| x.as_str()).collect();
            let mut v = vec![];
            for p in &parts {
                v.push(env.get(*p)?.clone());
            }
            if parts.is_empty() {
                return None;
            }
            Some((format!("let {name} = [{}]", parts.join(", ")), Ok(NestOut::Nested(v))))
        }
        "unnest" => {
            let from = st["from"].as_str()?;
            let outer = nenv.get(from)?;
            let how = st["how"].as_str()?;
            let with = st["with"].as_str().unwrap_or("");
            match how {
                "tail_outer" => {
                    let text = format!("let {name} = tail({from})");
                    if outer.is_empty() {
                        return Some((text, Err(())));
                    }
                    Some((text, Ok(NestOut::Nested(outer[1..].to_vec()))))
                }
                "cons_outer" => {
                    let w = env.get(with)?;
                    let mut v = vec![w.clone()];
                    v.extend(outer.iter().cloned());
                    Some((format!("let {name} = cons({with}, {from})"), Ok(NestOut::Nested(v))))
                }
                _ => {
                    let (inner_text, inner): (String, Option<Vec<i64>>) = match how {
                        "head" => (format!("head({from})"), outer.first().cloned()),
                        "elem" => {
                            let i = st["index"].as_i64().unwrap_or(0);
                            (format!("element_at({i}, {from})"), outer.get(i as usize).cloned())
                        }
                        _ => {
                            let w = env.get(with)?;
                            (
                                format!("concat(head({from}), {with})"),
                                outer.first().map(|x| {
                                    let mut y = x.clone();
                                    y.extend(w.iter().copied());
                                    y
                                }),
                            )
                        }
                    };
                    let v = st["v"].as_i64().unwrap_or(0);
                    let (text, out) = match st["then"].as_str().unwrap_or("id") {
                        "cons" => (
                            format!("cons({}, {inner_text})", el(v)),
                            inner.map(|mut x| {
                                x.insert(0, v);
                                x
                            }),
                        ),
                        "cons_end" => (
                            format!("cons_end({}, {inner_text})", el(v)),
                            inner.map(|mut x| {
                                x.push(v);
                                x
                            }),
                        ),
                        "tail" => (
                            format!("tail({inner_text})"),
                            inner.and_then(|x| if x.is_empty() { None } else { Some(x[1..].to_vec()) }),
                        ),
                        _ => (inner_text, inner),
                    };
                    Some((format!("let {name} = {text}"), out.map(NestOut::Flat).ok_or(())))
                }
            }
        }
        _ => None,
    }
}

fn gen_list_expr(rng: &mut Rng, vars: &[String], depth: u32, next_val: &mut i64) -> Value {
    if structural_mode() {
        return gen_list_expr_units(rng, vars, depth, next_val);
    }
    let leaf = depth == 0 || rng.chance(0.25);
    if leaf {
        if !vars.is_empty() && rng.chance(0.65) {
            return json!(["var", rng.pick(vars)]);
        }
        if rng.chance(0.2) {
            let a = rng.range(0, 4);
            return json!(["range", a, a + rng.range(-1, 4)]);
        }
        let n = rng.below(5);
        let vals: Vec<i64> = (0..n)
            .map(|_| {
                *next_val += 1;
                *next_val
            })
            .collect();
        return json!(["lit", vals]);
    }
    let sub = |rng: &mut Rng, nv: &mut i64| gen_list_expr(rng, vars, depth - 1, nv);
    *next_val += 1;
    let v = *next_val;
    match rng.below(20) {
        0..=3 => json!(["cons", v, sub(rng, next_val)]),
        4..=6 => json!(["cons_end", v, sub(rng, next_val)]),
        7..=10 => json!(["tail", sub(rng, next_val)]),
        11 => json!(["concat", sub(rng, next_val), sub(rng, next_val)]),
        12 => json!(["take", rng.range(0, 4), sub(rng, next_val)]),
        13 => json!(["drop", rng.range(0, 4), sub(rng, next_val)]),
        14 => json!(["reverse", sub(rng, next_val)]),
        15 => json!(["map_inc", sub(rng, next_val)]),
        16 => json!(["filter_odd", sub(rng, next_val)]),
        17 => {
            if rng.chance(0.5) {
                json!(["sort", sub(rng, next_val)])
            } else {
                json!(["unique", sub(rng, next_val)])
            }
        }
        18 => json!(["intersperse", v, sub(rng, next_val)]),
        _ => json!([
            "if_empty",
            sub(rng, next_val),
            sub(rng, next_val),
            sub(rng, next_val)
        ]),
    }
}

thread_local! {
    /// elements that exist (or existed) in the session being generated: candidates for twins
    static POOL: std::cell::RefCell<Vec<i64>> = const { std::cell::RefCell::new(Vec::new()) };
}

/// Unit mode: structural operations only (elements are lengths in two units), and 40 % of the
/// new elements are the twin (`3 m` vs `300 cm`) of an element that already exists somewhere.
fn gen_list_expr_units(rng: &mut Rng, vars: &[String], depth: u32, next_val: &mut i64) -> Value {
    let new_elem = |rng: &mut Rng, nv: &mut i64| -> i64 {
        let pool: Vec<i64> = POOL.with(|p| p.borrow().clone());
        let v = if strings_mode() {
            // strings: sometimes an element that already exists somewhere (equal AND identical)
            if !pool.is_empty() && rng.chance(0.3) {
                *rng.pick(&pool)
            } else {
                *nv += 1;
                *nv
            }
        } else if !pool.is_empty() && rng.chance(0.4) {
            twin(*rng.pick(&pool))
        } else {
            *nv += 1;
            if rng.chance(0.3) { -(*nv * 100) } else { *nv }
        };
        POOL.with(|p| p.borrow_mut().push(v));
        v
    };
    let leaf = depth == 0 || rng.chance(0.25);
    if leaf {
        if !vars.is_empty() && rng.chance(0.7) {
            return json!(["var", rng.pick(vars)]);
        }
        let n = rng.range(1, 4);
        let vals: Vec<i64> = (0..n).map(|_| new_elem(rng, next_val)).collect();
        if strings_mode() && rng.chance(0.4) {
            // the same list, built by splitting a string (list made by the library / FFI)
            return json!(["split", vals]);
        }
        return json!(["lit", vals]);
    }
    let sub = |rng: &mut Rng, nv: &mut i64| gen_list_expr_units(rng, vars, depth - 1, nv);
    match rng.below(16) {
        0..=4 => {
            let e = sub(rng, next_val);
            json!(["cons", new_elem(rng, next_val), e])
        }
        5..=6 => {
            let e = sub(rng, next_val);
            json!(["cons_end", new_elem(rng, next_val), e])
        }
        7..=10 => json!(["tail", sub(rng, next_val)]),
        11 => json!(["concat", sub(rng, next_val), sub(rng, next_val)]),
        12 => json!(["take", rng.range(0, 4), sub(rng, next_val)]),
        13 => json!(["drop", rng.range(0, 4), sub(rng, next_val)]),
        14 => json!(["reverse", sub(rng, next_val)]),
        _ => {
            let e = sub(rng, next_val);
            json!(["intersperse", new_elem(rng, next_val), e])
        }
    }
}

pub fn generate(rng: &mut Rng) -> Value {
    let mode = rng.below(10);
    let units = mode < 4;
    let strings = (4..6).contains(&mode);
    UNITS.with(|u| u.set(units));
    STRINGS.with(|u| u.set(strings));
    POOL.with(|p| p.borrow_mut().clear());
    let n_steps = rng.range(4, 24) as usize;
    let mut steps = vec![];
    // per live session: names of its list globals
    let mut sessions: Vec<Option<BTreeMap<String, Vec<i64>>>> = vec![Some(BTreeMap::new())];
    let mut next_val = 10i64;
    let mut next_name = 0usize;
    let mut nested_names: Vec<Vec<String>> = vec![vec![]];
    let mut nested_envs: Vec<NEnv> = vec![NEnv::new()];
    for _ in 0..n_steps {
        let live: Vec<usize> = (0..sessions.len())
            .filter(|i| sessions[*i].is_some())
            .collect();
        let s = *rng.pick(&live);
        let roll = rng.below(100);
        if roll < 12 && live.len() < 4 {
            steps.push(json!({"op": "clone", "from": s}));
            let names = sessions[s].clone();
            sessions.push(names);
            let nn = nested_names[s].clone();
            nested_names.push(nn);
            let ne = nested_envs[s].clone();
            nested_envs.push(ne);
        } else if roll < 18 && live.len() > 1 {
            steps.push(json!({"op": "drop", "session": s}));
            sessions[s] = None;
        } else if (60..75).contains(&roll) && !sessions[s].as_ref().unwrap().is_empty() {
            // nested lists: lists whose elements are (handles to) other lists' storage
            let vars: Vec<String> = sessions[s].as_ref().unwrap().keys().cloned().collect();
            let nested: Vec<String> = nested_names[s].clone();
            if nested.is_empty() || rng.chance(0.4) {
                let n = rng.range(1, 3) as usize;
                let parts: Vec<String> = (0..n).map(|_| rng.pick(&vars).clone()).collect();
                next_name += 1;
                let name = format!("vn{next_name}");
                let st = json!({"op": "nest", "session": s, "name": name, "parts": parts});
                if let Some((_, Ok(NestOut::Nested(v)))) = nested_step(&st, sessions[s].as_ref().unwrap(), &nested_envs[s]) {
                    nested_envs[s].insert(name.clone(), v);
                    nested_names[s].push(name);
                }
                steps.push(st);
            } else {
                let from = rng.pick(&nested).clone();
                let how = *rng.pick(&["head", "elem", "tail_outer", "cons_outer", "concat_inner"]);
                next_val += 1;
                let name = if how == "tail_outer" || how == "cons_outer" {
                    next_name += 1;
                    format!("vn{next_name}")
                } else if !vars.is_empty() && rng.chance(0.3) {
                    rng.pick(&vars).clone()
                } else {
                    next_name += 1;
                    format!("vl{next_name}")
                };
                let then = *rng.pick(&["id", "cons", "cons_end", "tail"]);
                let v = if units { if rng.chance(0.5) { next_val } else { -(next_val * 100) } } else { next_val };
                let st = json!({"op": "unnest", "session": s, "name": name, "from": from, "how": how,
                    "index": rng.range(0, 2), "then": then, "v": v, "with": rng.pick(&vars)});
                match nested_step(&st, sessions[s].as_ref().unwrap(), &nested_envs[s]) {
                    Some((_, Ok(NestOut::Flat(x)))) => {
                        sessions[s].as_mut().unwrap().insert(name, x);
                    }
                    Some((_, Ok(NestOut::Nested(x)))) => {
                        nested_envs[s].insert(name.clone(), x);
                        nested_names[s].push(name);
                    }
                    _ => {}
                }
                steps.push(st);
            }
        } else if roll < 75 {
            let vars: Vec<String> = sessions[s].as_ref().unwrap().keys().cloned().collect();
            let depth = rng.range(1, 4) as u32;
            let e = gen_list_expr(rng, &vars, depth, &mut next_val);
            // redefinition (shadowing) of an existing global in 20 % of the cases
            let name = if !vars.is_empty() && rng.chance(0.2) {
                rng.pick(&vars).clone()
            } else {
                next_name += 1;
                format!("vl{next_name}")
            };
            // the generator's own copy of the model decides whether the name will exist
            let val = eval_list(&e, sessions[s].as_ref().unwrap());
            steps.push(json!({"op": "let", "session": s, "name": name, "expr": e}));
            if let Some(Ok(v)) = val {
                sessions[s].as_mut().unwrap().insert(name, v);
            }
        } else {
            // scalar observations: head / len / element_at / sum / ==
            let vars: Vec<String> = sessions[s].as_ref().unwrap().keys().cloned().collect();
            let depth = rng.range(0, 3) as u32;
            let e = gen_list_expr(rng, &vars, depth, &mut next_val);
            let kind = if strings {
                *rng.pick(&["head", "len", "eq", "element_at", "join"])
            } else if units {
                *rng.pick(&["head", "len", "eq", "element_at"])
            } else {
                *rng.pick(&["head", "len", "sum", "eq", "element_at"])
            };
            let mut st = json!({"op": "observe", "session": s, "kind": kind, "expr": e});
            if kind == "eq" {
                st["other"] = gen_list_expr(rng, &vars, depth, &mut next_val);
            }
            if kind == "element_at" {
                st["index"] = json!(rng.range(0, 3));
            }
            steps.push(st);
        }
    }
    UNITS.with(|u| u.set(false));
    STRINGS.with(|u| u.set(false));
    json!({"format": 1, "property": "C18", "level": "interp", "units": units, "strings": strings, "steps": steps})
}

fn count_vars(e: &Value, out: &mut Vec<String>) {
    if let Some(a) = e.as_array() {
        if a.first().and_then(|x| x.as_str()) == Some("var") {
            out.push(a[1].as_str().unwrap_or("").to_string());
        }
        for x in a.iter().skip(1) {
            count_vars(x, out);
        }
    }
}

pub fn exec(w: &mut InterpWorker, trace: &Value, res: &mut ExecResult) {
    let base = match w.base() {
        Ok(b) => b,
        Err(e) => {
            res.harness_error = Some(e);
            return;
        }
    };
    struct S {
        sess: Sess,
        env: BTreeMap<String, Vec<i64>>,
        nenv: NEnv,
    }
    let units = trace["units"].as_bool().unwrap_or(false);
    UNITS.with(|u| u.set(units));
    let strings = trace["strings"].as_bool().unwrap_or(false);
    STRINGS.with(|u| u.set(strings));
    if strings {
        res.bump("interp.runs_with_string_elements");
    }
    RENDER_SESS.with(|s| {
        if s.borrow().is_none() {
            *s.borrow_mut() = Some(base.clone());
        }
    });
    if units {
        res.bump("interp.runs_with_equal_but_distinct_elements");
    }
    let mut sessions: Vec<Option<S>> = vec![Some(S {
        sess: base,
        env: BTreeMap::new(),
        nenv: NEnv::new(),
    })];
    let mut fp = Fnv::default();
    let mut nontrivial = false;
    let mut cloned_once = false;
    let empty = vec![];
    let steps = trace["steps"].as_array().unwrap_or(&empty);
    for (k, st) in steps.iter().enumerate() {
        let op = st["op"].as_str().unwrap_or("");
        let sidx = st["session"].as_u64().or(st["from"].as_u64()).unwrap_or(0) as usize;
        if sidx >= sessions.len() || sessions[sidx].is_none() {
            continue;
        }
        res.bump("interp.steps");
        match op {
            "clone" => {
                let s = sessions[sidx].as_ref().unwrap();
                let c = S {
                    sess: s.sess.clone(),
                    env: s.env.clone(),
                    nenv: s.nenv.clone(),
                };
                if !c.env.is_empty() {
                    cloned_once = true;
                }
                sessions.push(Some(c));
                res.bump("interp.session_clone");
            }
            "drop" => {
                sessions[sidx] = None;
                res.bump("interp.session_drop");
            }
            "nest" | "unnest" => {
                let s = sessions[sidx].as_mut().unwrap();
                let Some((text, want)) = nested_step(st, &s.env, &s.nenv) else {
                    continue;
                };
                let name = st["name"].as_str().unwrap_or("vnx").to_string();
                if cloned_once {
                    nontrivial = true;
                }
                res.bump(&format!("interp.{op}"));
                let full = format!("{text}\nprint({name})");
                let out = s.sess.submit(&full);
                fp.write_str(&full);
                fp.write_str(&out.full_text());
                match (&want, &out.kind) {
                    (_, crate::sess::OutKind::Panic(p)) => {
                        res.sut_panics.push(p.clone());
                        res.fail("list-panic", format!("step {k}: `{full}` panicked: {p}"));
                    }
                    (Ok(w_), crate::sess::OutKind::Ok { .. }) => {
                        let wtext = match w_ {
                            NestOut::Flat(v) => fmt_list(v),
                            NestOut::Nested(v) => fmt_nested(v),
                        };
                        let got = out.prints.last().cloned().unwrap_or_default();
                        if got != wtext {
                            res.fail("list-model", format!("step {k}: `{full}` printed `{got}`, model says `{wtext}`"));
                        }
                        match want {
                            Ok(NestOut::Flat(v)) => {
                                s.nenv.remove(&name);
                                s.env.insert(name, v);
                            }
                            Ok(NestOut::Nested(v)) => {
                                s.env.remove(&name);
                                s.nenv.insert(name, v);
                            }
                            Err(()) => {}
                        }
                    }
                    (Err(()), crate::sess::OutKind::Err { stage, .. }) if *stage == "runtime" => {
                        res.bump("interp.expected_runtime_error");
                    }
                    (Ok(_), crate::sess::OutKind::Err { stage, msg }) => {
                        res.fail("list-model", format!("step {k}: `{full}` failed ({stage}: {msg}), model says it succeeds"));
                    }
                    (Err(()), _) => {
                        res.fail("list-model", format!("step {k}: `{full}` gave {}, model says run-time error", out.full_text()));
                    }
                }
            }
            "let" | "observe" => {
                let s = sessions[sidx].as_mut().unwrap();
                let e = &st["expr"];
                let mut used = vec![];
                count_vars(e, &mut used);
                if !used.is_empty() && cloned_once {
                    nontrivial = true;
                }
                used.sort();
                if used.windows(2).any(|w| w[0] == w[1]) {
                    nontrivial = true; // the same global used twice in one expression
                }
                let Some(model) = eval_list(e, &s.env) else {
                    continue; // refers to a global that does not exist (after shrinking)
                };
                let text_e = render_list(e);
                let (text, want): (String, Result<String, ()>) = if op == "let" {
                    let name = st["name"].as_str().unwrap_or("vlx");
                    (
                        format!("let {name} = {text_e}\nprint({name})"),
                        model.clone().map(|v| fmt_list(&v)),
                    )
                } else {
                    match st["kind"].as_str().unwrap_or("len") {
                        "head" => (
                            format!("print(head({text_e}))"),
                            model.clone().and_then(|v| v.first().map(|x| shown(&el(*x))).ok_or(())),
                        ),
                        "join" => (
                            format!("print(join({text_e}, \"+\"))"),
                            model.clone().map(|v| v.iter().map(|x| format!("e{x}")).collect::<Vec<_>>().join("+")),
                        ),
                        "len" => (
                            format!("print(len({text_e}))"),
                            model.clone().map(|v| shown(&v.len().to_string())),
                        ),
                        "sum" => (
                            format!("print(sum({text_e}))"),
                            model.clone().map(|v| shown(&v.iter().sum::<i64>().to_string())),
                        ),
                        "element_at" => {
                            let i = st["index"].as_i64().unwrap_or(0);
                            (
                                format!("print(element_at({i}, {text_e}))"),
                                model.clone().and_then(|v| {
                                    v.get(i as usize).map(|x| shown(&el(*x))).ok_or(())
                                }),
                            )
                        }
                        _ => {
                            let o = &st["other"];
                            let Some(m2) = eval_list(o, &s.env) else {
                                continue;
                            };
                            (
                                format!("print({text_e} == {})", render_list(o)),
                                match (model.clone(), m2) {
                                    (Ok(a), Ok(b)) => {
                                        let pa: Vec<i64> = a.iter().map(|x| phys(*x)).collect();
                                        let pb: Vec<i64> = b.iter().map(|x| phys(*x)).collect();
                                        if pa == pb && a != b {
                                            res.bump("probe.interp_eq_of_equal_but_distinct_lists");
                                        }
                                        Ok(shown_bool(pa == pb))
                                    }
                                    _ => Err(()),
                                },
                            )
                        }
                    }
                };
                res.bump(&format!("interp.{op}"));
                let out = s.sess.submit(&text);
                fp.write_str(&text);
                fp.write_str(&out.full_text());
                match (&want, &out.kind) {
                    (_, crate::sess::OutKind::Panic(p)) => {
                        res.sut_panics.push(p.clone());
                        res.fail("list-panic", format!("step {k}: `{text}` panicked: {p}"));
                    }
                    (Ok(w_), crate::sess::OutKind::Ok { .. }) => {
                        let got = out.prints.last().cloned().unwrap_or_default();
                        if &got != w_ {
                            res.fail(
                                "list-model",
                                format!("step {k}: `{text}` printed `{got}`, model says `{w_}`"),
                            );
                        }
                        if op == "let"
                            && let Ok(v) = model
                        {
                            s.nenv.remove(st["name"].as_str().unwrap_or("vlx"));
                            s.env
                                .insert(st["name"].as_str().unwrap_or("vlx").to_string(), v);
                        }
                    }
                    (Err(()), crate::sess::OutKind::Err { stage, .. }) if *stage == "runtime" => {
                        res.bump("interp.expected_runtime_error");
                    }
                    (Ok(w_), crate::sess::OutKind::Err { stage, msg }) => {
                        res.fail(
                            "list-model",
                            format!(
                                "step {k}: `{text}` failed ({stage}: {msg}), model says `{w_}`"
                            ),
                        );
                    }
                    (Err(()), _) => {
                        res.fail(
                            "list-model",
                            format!(
                                "step {k}: `{text}` gave {}, model says run-time error",
                                out.full_text()
                            ),
                        );
                    }
                }
            }
            _ => {}
        }
        if res.violation.is_some() {
            break;
        }
        // cross-invariant: every global of every live session still equals its model
        for (si, s) in sessions.iter().enumerate() {
            let Some(s) = s else { continue };
            if s.env.is_empty() && s.nenv.is_empty() {
                continue;
            }
            let names: Vec<&String> = s.env.keys().chain(s.nenv.keys()).collect();
            let probe = names
                .iter()
                .map(|n| format!("print({n})"))
                .collect::<Vec<_>>()
                .join("\n");
            let mut c = s.sess.clone();
            let out = c.submit(&probe);
            res.bump("interp.cross_checks");
            let want: Vec<String> = s
                .env
                .values()
                .map(|v| fmt_list(v))
                .chain(s.nenv.values().map(|v| fmt_nested(v)))
                .collect();
            if !out.is_ok() || out.prints != want {
                res.fail(
                    "list-model",
                    format!(
                        "after step {k} ({}): session {si} globals {names:?} print {:?} ({}), model says {want:?}",
                        st,
                        out.prints,
                        out.result_text()
                    ),
                );
                break;
            }
            let mut sf = Fnv::default();
            for w_ in &want {
                sf.write_str(w_);
            }
            res.states.insert(sf.0);
        }
        if res.violation.is_some() {
            break;
        }
    }
    UNITS.with(|u| u.set(false));
    STRINGS.with(|u| u.set(false));
    res.fingerprint = fp.0;
    res.nontrivial = nontrivial;
}

pub fn shrink(trace: &Value) -> Vec<Value> {
    let Some(steps) = trace["steps"].as_array() else {
        return vec![];
    };
    let mut out = vec![];
    let n = steps.len();
    for i in (0..n).rev() {
        let mut v = steps.clone();
        v.remove(i);
        let mut t = trace.clone();
        t["steps"] = Value::Array(v);
        out.push(t);
    }
    // replace sub-expressions by their first list-valued child
    for i in 0..n {
        for key in ["expr", "other"] {
            if let Some(a) = steps[i][key].as_array() {
                for child in a.iter().skip(1) {
                    if child.is_array()
                        && child
                            .as_array()
                            .and_then(|c| c.first())
                            .map(|x| x.is_string())
                            .unwrap_or(false)
                    {
                        let mut t = trace.clone();
                        t["steps"][i][key] = child.clone();
                        out.push(t);
                    }
                }
            }
        }
    }
    out
}
