//! C22 — the command-line tool reports success and failure faithfully.
//!
//! The real `numbat` binary (built from /repo into /verif/target-cli) is run as a black box in
//! a sandbox the harness owns (private config/home/data directories, fixed environment, stdin
//! closed, stdout/stderr captured). There is no scheduling dimension; what is sampled is
//! fault position × pipeline stage × delivery channel × environment fault. The oracle is a
//! by-construction model: the generator knows which line is faulty and which unique marker
//! strings the script prints.

use std::collections::BTreeMap;
use std::io::Read;
use std::path::PathBuf;
use std::process::{Command, Stdio};

use serde_json::{Value, json};

use crate::c06::SessWorker;
use crate::engine::{ExecResult, Prop, Tier};
use crate::rng::{Fnv, Rng};
use crate::sess::Sess;
use crate::workload::{FaultKind, Gen};

pub fn cli_binary() -> String {
    std::env::var("NBSIM_CLI").unwrap_or_else(|_| format!("{}/target-cli/debug/numbat", crate::verif_root()))
}

pub struct CliOut {
    pub code: Option<i32>,
    pub stdout: String,
    pub stderr: String,
    pub timed_out: bool,
}

fn sandbox_dir() -> PathBuf {
    let d = format!(
        "{}/work/c22/{}-{:?}",
        crate::verif_root(),
        std::process::id(),
        std::thread::current().id()
    )
    .replace(['(', ')'], "");
    PathBuf::from(d)
}

/// Run the binary with `args` in a fresh sandbox populated with `files` (relative path -> bytes).
pub fn run_cli(args: &[String], files: &BTreeMap<String, Vec<u8>>, dirs: &[String], modules_path: &str) -> CliOut {
    let root = sandbox_dir();
    let _ = std::fs::remove_dir_all(&root);
    std::fs::create_dir_all(root.join("cfg/numbat")).unwrap();
    std::fs::create_dir_all(root.join("home")).unwrap();
    std::fs::create_dir_all(root.join("data")).unwrap();
    std::fs::create_dir_all(root.join("run")).unwrap();
    for d in dirs {
        std::fs::create_dir_all(root.join(d)).unwrap();
    }
    for (p, bytes) in files {
        let path = root.join(p);
        if let Some(parent) = path.parent() {
            std::fs::create_dir_all(parent).unwrap();
        }
        std::fs::write(&path, bytes).unwrap();
    }
    let mut cmd = Command::new(cli_binary());
    cmd.env_clear()
        .env("HOME", root.join("home"))
        .env("XDG_CONFIG_HOME", root.join("cfg"))
        .env("XDG_DATA_HOME", root.join("data"))
        .env("NUMBAT_MODULES_PATH", modules_path)
        .env("TZ", "UTC")
        .env("NO_COLOR", "1")
        .env("TERM", "dumb")
        .current_dir(root.join("run"))
        .args(args)
        .stdin(Stdio::null())
        .stdout(Stdio::piped())
        .stderr(Stdio::piped());
    let mut child = match cmd.spawn() {
        Ok(c) => c,
        Err(e) => {
            return CliOut {
                code: None,
                stdout: String::new(),
                stderr: format!("HARNESS: cannot spawn {}: {e}", cli_binary()),
                timed_out: false,
            };
        }
    };
    // read both pipes on helper threads so that a full pipe can never block the child
    let mut so = child.stdout.take().unwrap();
    let mut se = child.stderr.take().unwrap();
    let t1 = std::thread::spawn(move || {
        let mut b = Vec::new();
        let _ = so.read_to_end(&mut b);
        b
    });
    let t2 = std::thread::spawn(move || {
        let mut b = Vec::new();
        let _ = se.read_to_end(&mut b);
        b
    });
    let deadline = std::time::Instant::now() + std::time::Duration::from_secs(60);
    let mut timed_out = false;
    let status = loop {
        match child.try_wait() {
            Ok(Some(s)) => break Some(s),
            Ok(None) => {
                if std::time::Instant::now() > deadline {
                    let _ = child.kill();
                    let _ = child.wait();
                    timed_out = true;
                    break None;
                }
                std::thread::sleep(std::time::Duration::from_millis(2));
            }
            Err(_) => break None,
        }
    };
    let stdout = String::from_utf8_lossy(&t1.join().unwrap_or_default()).to_string();
    let stderr = String::from_utf8_lossy(&t2.join().unwrap_or_default()).to_string();
    CliOut {
        code: status.and_then(|s| s.code()),
        stdout,
        stderr,
        timed_out,
    }
}

fn marker_of(line: &str) -> Option<String> {
    let l = line.trim();
    let rest = l.strip_prefix("print(\"mk-")?;
    let end = rest.find("\")")?;
    let (n, after) = (&rest[..end], rest[end + 2..].trim());
    if !n.is_empty() && n.chars().all(|c| c.is_ascii_digit()) && (after.is_empty() || after.starts_with('#')) {
        Some(format!("mk-{n}"))
    } else {
        None
    }
}

/// Marker printed by a script line: its own `print("mk-n")`, or the marker printed by the user
/// module that a `use user::…` line imports.
fn line_marker(line: &str, trace: &Value) -> Option<String> {
    if let Some(m) = marker_of(line) {
        return Some(m);
    }
    let um = &trace["user_module"];
    if let (Some(name), Some(marker)) = (um["name"].as_str(), um["marker"].as_str())
        && line.trim() == format!("use {name}")
    {
        return Some(marker.to_string());
    }
    // the one very long printed line of a "big output" case
    let big = &trace["big_output"];
    if let (Some(l), Some(expected)) = (big["line"].as_str(), big["expected"].as_str())
        && line.trim() == l
    {
        return Some(expected.to_string());
    }
    None
}

fn add_user_module_file(trace: &Value, files: &mut BTreeMap<String, Vec<u8>>) {
    let um = &trace["user_module"];
    if let (Some(path), Some(src)) = (um["path"].as_str(), um["source"].as_str()) {
        files.insert(path.to_string(), src.as_bytes().to_vec());
    }
}

fn label_in(stderr: &str) -> Option<String> {
    for l in stderr.lines() {
        if let Some(p) = l.find("┌─ ") {
            let loc = &l[p + "┌─ ".len()..];
            let parts: Vec<&str> = loc.rsplitn(3, ':').collect();
            if parts.len() == 3 && !parts[2].is_empty() {
                return Some(parts[2].to_string());
            }
        }
    }
    None
}

/// (label of `script.nbt`, label of the -e input) as the binary under test prints them.
fn source_labels(modules_path: &str) -> (Option<String>, Option<String>) {
    static LABELS: std::sync::OnceLock<(Option<String>, Option<String>)> = std::sync::OnceLock::new();
    LABELS
        .get_or_init(|| {
            let mut files: BTreeMap<String, Vec<u8>> = BTreeMap::new();
            files.insert("run/script.nbt".into(), b"1 +".to_vec());
            let a = run_cli(&["--no-config".into(), "--no-init".into(), "script.nbt".into()], &files, &[], modules_path);
            let b = run_cli(
                &["--no-config".into(), "--no-init".into(), "-e".into(), "1 +".into()],
                &BTreeMap::new(),
                &[],
                modules_path,
            );
            (label_in(&a.stderr), label_in(&b.stderr))
        })
        .clone()
}

/// What the binary writes to standard error for ANY failing run, whatever the failure: the
/// longest common line-suffix of the stderr of three one-line scripts that fail at different
/// stages (syntax error, unknown identifier, division by zero). A failing run whose stderr is
/// nothing but this tail has not reported a diagnostic for its failure. Learnt once per process
/// from the binary under test, so it does not depend on the wording or style of diagnostics.
fn generic_failure_tail(modules_path: &str) -> Vec<String> {
    static TAIL: std::sync::OnceLock<Vec<String>> = std::sync::OnceLock::new();
    TAIL.get_or_init(|| {
        let errs: Vec<Vec<String>> = ["1 +", "undefined_identifier_zz", "1 / 0"]
            .iter()
            .map(|code| {
                let o = run_cli(
                    &["--no-config".into(), "--no-init".into(), "-e".into(), code.to_string()],
                    &BTreeMap::new(),
                    &[],
                    modules_path,
                );
                o.stderr.lines().map(|l| l.trim_end().to_string()).collect()
            })
            .collect();
        let mut tail: Vec<String> = vec![];
        let mut k = 1;
        loop {
            let mut line: Option<&String> = None;
            let mut all = true;
            for e in &errs {
                if e.len() < k {
                    all = false;
                    break;
                }
                let l = &e[e.len() - k];
                match line {
                    None => line = Some(l),
                    Some(x) if x == l => {}
                    _ => {
                        all = false;
                    }
                }
            }
            if !all {
                break;
            }
            tail.insert(0, line.unwrap().clone());
            k += 1;
        }
        tail
    })
    .clone()
}

fn normalise_stderr(s: &str) -> String {
    // source labels may differ between delivery channels
    s.lines()
        .filter(|l| !l.contains("┌─"))
        .collect::<Vec<_>>()
        .join("\n")
}

/// Run the invocation a (fault-free-environment) trace describes, without judging it.
fn raw_invocation(trace: &Value) -> Option<CliOut> {
    let strs = |v: &Value| -> Vec<String> {
        v.as_array()
            .map(|a| a.iter().filter_map(|x| x.as_str().map(|s| s.to_string())).collect())
            .unwrap_or_default()
    };
    let file_lines = strs(&trace["file_lines"]);
    let e_lines = strs(&trace["e_lines"]);
    let channel = trace["channel"].as_str().unwrap_or("file");
    let mut args: Vec<String> = strs(&trace["flags"]);
    let mut files: BTreeMap<String, Vec<u8>> = BTreeMap::new();
    match trace["config"].as_str() {
        Some(c) => {
            files.insert("cfg/numbat/config.toml".into(), c.as_bytes().to_vec());
        }
        None => args.push("--no-config".into()),
    }
    if let Some(i) = trace["init"].as_str() {
        files.insert("cfg/numbat/init.nbt".into(), i.as_bytes().to_vec());
    }
    add_user_module_file(trace, &mut files);
    if channel == "e" || channel == "split" {
        for l in &e_lines {
            args.push("-e".into());
            args.push(l.clone());
        }
    }
    if channel == "file" || channel == "split" {
        files.insert("run/script.nbt".into(), (file_lines.join("\n") + "\n").into_bytes());
        args.push("script.nbt".into());
    }
    let out = run_cli(&args, &files, &[], &trace["modules_path"].as_str().map(|s| s.to_string()).unwrap_or_else(crate::sess::modules_dir));
    if out.stderr.starts_with("HARNESS:") || out.timed_out {
        None
    } else {
        Some(out)
    }
}

const CONFIG_NEVER_FETCH: &str = "[exchange-rates]\nfetching-policy = \"never\"\n";

/// Build the invocation described by a trace and check it against the by-construction model.
pub fn exec_trace(trace: &Value, res: &mut ExecResult) -> u64 {
    let mut obs = Fnv::default();
    let strs = |v: &Value| -> Vec<String> {
        v.as_array()
            .map(|a| a.iter().filter_map(|x| x.as_str().map(|s| s.to_string())).collect())
            .unwrap_or_default()
    };
    let file_lines = strs(&trace["file_lines"]);
    let e_lines = strs(&trace["e_lines"]);
    let channel = trace["channel"].as_str().unwrap_or("file");
    let flags = strs(&trace["flags"]);
    let fault = &trace["fault"]; // {"where": "file"|"e", "index": k, "stage": ..} or null
    let env_fault = trace["env_fault"].as_str().unwrap_or("");
    let init = trace["init"].as_str();
    let modules_path = trace["modules_path"].as_str().map(|s| s.to_string()).unwrap_or_else(crate::sess::modules_dir);
    let use_config = trace["config"].as_str();
    let last_is_expr = trace["last_is_expr"].as_bool().unwrap_or(false);

    let mut files: BTreeMap<String, Vec<u8>> = BTreeMap::new();
    let mut dirs: Vec<String> = vec![];
    let mut args: Vec<String> = flags.clone();
    match use_config {
        Some(c) => {
            files.insert("cfg/numbat/config.toml".into(), c.as_bytes().to_vec());
        }
        None => args.push("--no-config".into()),
    }
    if let Some(i) = init {
        files.insert("cfg/numbat/init.nbt".into(), i.as_bytes().to_vec());
    }
    add_user_module_file(trace, &mut files);
    if !trace["user_module"].is_null() {
        res.bump("probe.user_module_imported");
    }
    if !trace["big_output"].is_null() {
        res.bump("probe.big_output_line");
    }
    let has_file = channel == "file" || channel == "split";
    if has_file {
        match env_fault {
            "missing-file" => {}
            "dir-as-file" => dirs.push("run/script.nbt".into()),
            "non-utf8-file" => {
                let mut b = file_lines.join("\n").into_bytes();
                b.extend_from_slice(&[0xff, 0xfe, 0x80, b'\n']);
                files.insert("run/script.nbt".into(), b);
            }
            _ => {
                files.insert("run/script.nbt".into(), (file_lines.join("\n") + "\n").into_bytes());
            }
        }
        args.push("script.nbt".into());
    }
    // clap: the file is a positional argument followed by trailing var args, so -e goes first
    let mut e_args: Vec<String> = vec![];
    if channel == "e" || channel == "split" {
        // `e_groups`: how many consecutive lines go into one -e argument (multi-line arguments)
        let groups: Vec<usize> = trace["e_groups"]
            .as_array()
            .map(|a| a.iter().filter_map(|x| x.as_u64().map(|v| v as usize)).collect())
            .unwrap_or_default();
        let mut i = 0;
        let mut g = 0;
        while i < e_lines.len() {
            let take = groups.get(g).copied().unwrap_or(1).max(1).min(e_lines.len() - i);
            e_args.push("-e".into());
            e_args.push(e_lines[i..i + take].join("\n"));
            i += take;
            g += 1;
        }
    }
    let mut full_args = vec![];
    let (pos, rest): (Vec<String>, Vec<String>) = args.into_iter().partition(|a| a == "script.nbt");
    full_args.extend(rest);
    if trace["file_first"].as_bool().unwrap_or(false) {
        full_args.extend(pos);
        full_args.extend(e_args);
    } else {
        full_args.extend(e_args);
        full_args.extend(pos);
    }

    let out = run_cli(&full_args, &files, &dirs, &modules_path);
    res.bump("cli_invocations");
    res.bump(&format!("channel.{channel}"));
    obs.write_str(&format!("{:?}", out.code));
    obs.write_str(&out.stdout);
    obs.write_str(&out.stderr.replace(&sandbox_dir().to_string_lossy().to_string(), "<SANDBOX>"));
    if out.stderr.starts_with("HARNESS:") {
        res.harness_error = Some(out.stderr.clone());
        return obs.0;
    }
    if out.timed_out {
        res.fail("cli-hang", format!("`numbat {}` did not exit within 60 s", full_args.join(" ")));
        return obs.0;
    }
    // A tool that dies with an internal panic has not "reported" anything: the diagnostic of the
    // failing input is missing. (Rust's panic message and exit status 101 are unmistakable and
    // do not depend on numbat's wording.)
    if out.code == Some(101) && out.stderr.contains("panicked at") {
        let at = out.stderr.lines().find(|l| l.contains("panicked at")).unwrap_or("").to_string();
        res.fail(
            "cli-crash",
            format!(
                "`numbat {}` crashed instead of reporting the outcome of its input ({at}); file={:?}",
                full_args.join(" "),
                file_lines.join(" ⏎ ")
            ),
        );
        return obs.0;
    }
    // markers can be very long (big-output cases): abbreviated in messages
    let sm = |m: &str| -> String {
        if m.len() > 80 {
            format!("{}…({} bytes)", &m[..40], m.len())
        } else {
            m.to_string()
        }
    };
    let describe = || -> String {
        format!(
            "args={:?} file={:?} exit={:?} stdout={:?} stderr={:?}",
            full_args,
            file_lines.join(" ⏎ "),
            out.code,
            if out.stdout.len() > 600 { &out.stdout[..600] } else { &out.stdout },
            if out.stderr.len() > 600 { &out.stderr[..600] } else { &out.stderr }
        )
    };

    let faulty = !fault.is_null();
    let env_faulty = matches!(
        env_fault,
        "missing-file" | "dir-as-file" | "non-utf8-file" | "corrupt-config" | "failing-init"
    );
    let expect_success = !faulty && !env_faulty;
    let stdout_lines: Vec<&str> = out.stdout.lines().map(|l| l.trim()).collect();

    // markers by input
    let file_markers: Vec<String> = if has_file { file_lines.iter().filter_map(|l| line_marker(l, trace)).collect() } else { vec![] };
    let e_markers: Vec<String> = if channel != "file" { e_lines.iter().filter_map(|l| line_marker(l, trace)).collect() } else { vec![] };
    let init_markers: Vec<String> = init.map(|i| i.lines().filter_map(marker_of).collect()).unwrap_or_default();

    // 1. exit status
    let success = out.code == Some(0);
    if success != expect_success {
        res.fail(
            "exit-status",
            format!(
                "expected {} ({}), {}",
                if expect_success { "exit status 0" } else { "a non-zero exit status" },
                if faulty { format!("line {} of the {} input fails at stage {}", fault["index"], fault["where"], fault["stage"]) } else if env_faulty { format!("environment fault {env_fault}") } else { "every input succeeds".to_string() },
                describe()
            ),
        );
        return obs.0;
    }
    if !success && out.code.is_none() {
        res.fail("exit-status", format!("the process was killed by a signal instead of reporting failure: {}", describe()));
        return obs.0;
    }
    let count = |m: &str| stdout_lines.iter().filter(|l| **l == m).count();
    if expect_success {
        // 2. stderr empty, markers in order, each exactly once
        if !out.stderr.trim().is_empty() {
            res.fail("stderr-on-success", format!("a successful run wrote to standard error: {}", describe()));
            return obs.0;
        }
        let all: Vec<String> = init_markers.iter().chain(file_markers.iter()).chain(e_markers.iter()).cloned().collect();
        let mut at = 0usize;
        for m in &all {
            if count(m) != 1 {
                res.fail("stdout-markers", format!("marker {} appears {} times on standard output (expected once): {}", sm(m), count(m), describe()));
                return obs.0;
            }
            match stdout_lines[at..].iter().position(|l| l == m) {
                Some(p) => at += p + 1,
                None => {
                    res.fail("stdout-markers", format!("marker {} is out of order on standard output: {}", sm(m), describe()));
                    return obs.0;
                }
            }
        }
        if last_is_expr && !flags.iter().any(|f| f == "always") {
            // the value of the final expression statement is printed after the last print
            let tail_nonempty = stdout_lines[at..].iter().any(|l| !l.trim().is_empty());
            if !tail_nonempty {
                res.fail("stdout-result", format!("the script ends in an expression statement but no result follows the last printed line: {}", describe()));
                return obs.0;
            }
        }
    } else {
        // 3. diagnostics on stderr, none on stdout; no marker after the faulty line
        if out.stderr.trim().is_empty() {
            res.fail("stderr-on-failure", format!("a failing run wrote nothing to standard error: {}", describe()));
            return obs.0;
        }
        // a diagnostic for THIS failure must be there: stderr must be more than the text every
        // failing run ends with
        if faulty && env_fault.is_empty() {
            let tail = generic_failure_tail(&modules_path);
            let got: Vec<String> = out.stderr.lines().map(|l| l.trim_end().to_string()).filter(|l| !l.is_empty()).collect();
            let tail_ne: Vec<String> = tail.iter().filter(|l| !l.is_empty()).cloned().collect();
            res.bump("checks.diagnostic_present");
            if got.len() <= tail_ne.len() && tail_ne.ends_with(&got) {
                res.fail(
                    "diagnostic-missing",
                    format!(
                        "the run failed (line {} of the {} input, stage {}) but standard error holds only what every failing run prints ({:?}), no diagnostic for this failure: {}",
                        fault["index"], fault["where"], fault["stage"], tail_ne, describe()
                    ),
                );
                return obs.0;
            }
        }
        // diagnostics quote the offending source line; none of that belongs on stdout
        let mut leaked = out.stdout.contains("┌─");
        if faulty {
            let where_ = fault["where"].as_str().unwrap_or("file");
            let idx = fault["index"].as_u64().unwrap_or(0) as usize;
            let lines = if where_ == "file" { &file_lines } else { &e_lines };
            if let Some(l) = lines.get(idx)
                && l.trim().len() >= 6
                && line_marker(l, trace).is_none()
                && out.stdout.contains(l.trim())
            {
                leaked = true;
            }
        }
        if leaked {
            res.fail("diagnostic-on-stdout", format!("diagnostic text on standard output: {}", describe()));
            return obs.0;
        }
        if env_faulty {
            // nothing of the script may have run when its file could not be read / config is corrupt
            let allowed: Vec<String> = if env_fault == "failing-init" { vec![] } else if env_fault == "corrupt-config" { vec![] } else { init_markers.clone() };
            for m in file_markers.iter().chain(e_markers.iter()).chain(init_markers.iter()) {
                if count(m) > 0 && !allowed.contains(m) {
                    res.fail("stdout-markers", format!("marker {} printed although the run failed with environment fault {env_fault}: {}", sm(m), describe()));
                    return obs.0;
                }
            }
        }
        if faulty {
            let where_ = fault["where"].as_str().unwrap_or("file");
            let idx = fault["index"].as_u64().unwrap_or(0) as usize;
            let stage = fault["stage"].as_str().unwrap_or("");
            let lines = if where_ == "file" { &file_lines } else { &e_lines };
            let static_stage = matches!(stage, "parse" | "resolve" | "name" | "type");
            for (i, l) in lines.iter().enumerate() {
                if let Some(m) = line_marker(l, trace) {
                    let forbidden = i > idx || static_stage;
                    if forbidden && count(&m) > 0 {
                        res.fail("stdout-markers", format!("marker {} (line {i}) was printed although line {idx} fails at stage {stage}{}: {}", sm(&m), if static_stage { " and the input must be rejected as a whole" } else { "" }, describe()));
                        return obs.0;
                    }
                }
            }
            if where_ == "file" {
                // the -e block must not have run at all
                for m in &e_markers {
                    if count(m) > 0 {
                        res.fail("stdout-markers", format!("marker {} of the -e block printed although the file failed first: {}", sm(m), describe()));
                        return obs.0;
                    }
                }
            } else if channel == "split" {
                // the file succeeded before: its markers must be there
                for m in &file_markers {
                    if count(m) != 1 {
                        res.fail("stdout-markers", format!("marker {} of the successful file input is missing although only the later -e block fails: {}", sm(m), describe()));
                        return obs.0;
                    }
                }
            }
        }
    }

    // 3b. every diagnostic the library produced must reach stderr: with two syntax errors in the
    // input (the library reported >= 2), removing the second one must change what is written
    if faulty
        && let Some(at2) = fault["second_parse_index"].as_u64()
        && env_fault.is_empty()
    {
        let where_ = fault["where"].as_str().unwrap_or("file");
        let mut t2 = trace.clone();
        let key = if where_ == "file" { "file_lines" } else { "e_lines" };
        if let Some(a) = t2[key].as_array_mut()
            && (at2 as usize) < a.len()
        {
            a.remove(at2 as usize);
            t2["fault"].as_object_mut().unwrap().remove("second_parse_index");
            t2["check_equivalence"] = json!(false);
            t2["e_groups"] = json!([]);
            let mut t1 = trace.clone();
            t1["e_groups"] = json!([]);
            t1["fault"].as_object_mut().unwrap().remove("second_parse_index");
            t1["check_equivalence"] = json!(false);
            let both = raw_invocation(&t1);
            let only_first = raw_invocation(&t2);
            res.bump("cli_invocations");
            res.bump("cli_invocations");
            res.bump("checks.second_diagnostic_reaches_stderr");
            if let (Some(a), Some(b)) = (both, only_first)
                && a.stderr == b.stderr
            {
                res.fail(
                    "diagnostics-dropped",
                    format!(
                        "the input has two syntax errors (the library reports {}), but standard error is the same as for the input with only the first one: {:?}; {}",
                        fault["library_parse_errors"], a.stderr, describe()
                    ),
                );
                return obs.0;
            }
        }
    }

    // 4. channel equivalence: the same lines as a file and as -e arguments
    if trace["check_equivalence"].as_bool().unwrap_or(false) && !env_faulty && (channel == "file" || channel == "e") {
        let lines = if channel == "file" { &file_lines } else { &e_lines };
        let mut args2: Vec<String> = flags.clone();
        if use_config.is_none() {
            args2.push("--no-config".into());
        }
        let mut files2 = files.clone();
        files2.remove("run/script.nbt");
        // byte-identical input through the other channel: `-e` arguments are joined with "\n", so
        // a file with a trailing newline corresponds to a final empty -e argument, and -e
        // arguments correspond to a file without trailing newline
        if channel == "file" {
            for l in lines.iter().chain(std::iter::once(&String::new())) {
                args2.push("-e".into());
                args2.push(l.clone());
            }
        } else {
            files2.insert("run/script.nbt".into(), lines.join("\n").into_bytes());
            args2.push("script.nbt".into());
        }
        let out2 = run_cli(&args2, &files2, &dirs, &modules_path);
        res.bump("cli_invocations");
        res.bump("checks.channel_equivalence");
        if out2.code != out.code || out2.stdout != out.stdout || normalise_stderr(&out2.stderr).is_empty() != normalise_stderr(&out.stderr).is_empty() {
            res.fail(
                "channel-equivalence",
                format!(
                    "the same lines give exit={:?} stdout={:?} as {} but exit={:?} stdout={:?} as {}; lines: {:?}",
                    out.code, out.stdout, if channel == "file" { "a file" } else { "-e arguments" },
                    out2.code, out2.stdout, if channel == "file" { "-e arguments" } else { "a file" },
                    lines
                ),
            );
            return obs.0;
        }
        // diagnostics: the same once source labels are replaced (the only difference the
        // channels are allowed to show); compared line by line on the lines that carry messages
        // The two channels may name their source differently, and only that. How each channel
        // names its source is learnt once per process from a one-line failing script (location
        // line `┌─ <label>:line:col` of the rendered diagnostic), so any labelling is accepted.
        let (file_label, e_label) = source_labels(&modules_path);
        let strip = |s: &str| -> Vec<String> {
            let mut t = s.to_string();
            for lab in [&file_label, &e_label].into_iter().flatten() {
                t = t.replace(lab.as_str(), "<SRC>");
            }
            t.lines().map(|l| l.to_string()).collect()
        };
        if file_label.is_none() || e_label.is_none() {
            res.bump("probe.source_labels_not_learnt");
        }
        if strip(&out.stderr) != strip(&out2.stderr) {
            res.fail(
                "channel-equivalence",
                format!("diagnostics differ between file and -e delivery beyond source labels: {:?} vs {:?}", out.stderr, out2.stderr),
            );
        }
    }
    obs.0
}

// ------------------------------------------------------------------------------------------
// generation

fn gen_trace(w: &mut SessWorker, rng: &mut Rng, res: &mut ExecResult) -> Option<Value> {
    let no_prelude = rng.chance(0.08);
    let mut cfg = Gen::swarm_cfg(rng, false, vec![]);
    cfg.allow_imports = false;
    cfg.multiline_strings = false; // scripts are assembled line by line
    cfg.weights[18] = cfg.weights[18].max(6); // prints (markers)
    cfg.weights[15] = 0;
    cfg.weights[23] = 0;
    let mut g = Gen::new(rng.fork(), cfg);
    g.with_markers = true;
    let base = match w.base(false) {
        Ok(b) => b,
        Err(e) => {
            res.harness_error = Some(e);
            return None;
        }
    };
    let mut shadow: Sess = base.clone();
    let n_elems = rng.range(1, 8) as usize;
    let mut lines: Vec<String> = vec![];
    let mut last_is_expr = false;
    let mut attempts = 0;
    while lines.len() < 12 && attempts < n_elems * 3 {
        attempts += 1;
        if lines.len() >= n_elems * 2 {
            break;
        }
        let text = if no_prelude {
            // without the prelude only the bare language is available
            let k = lines.len() + 1;
            match rng.below(4) {
                0 => format!("print(\"mk-{}\")", 9000 + k),
                1 => format!("let vn{k} = {} + {}", rng.range(1, 9), rng.range(1, 9)),
                2 => format!("fn fn{k}(pa) = pa * {}", rng.range(2, 5)),
                _ => format!("{} * {}", rng.range(1, 9), rng.range(1, 9)),
            }
        } else {
            let gi = g.next_input();
            gi.text
        };
        let o = if no_prelude {
            // verified against an empty context
            let mut s = Sess::new(w.importer.clone());
            let joined = lines.iter().cloned().chain(std::iter::once(text.clone())).collect::<Vec<_>>().join("\n");
            s.submit(&joined)
        } else {
            shadow.submit(&text)
        };
        if !no_prelude {
            g.feedback(o.is_ok());
        }
        if o.is_ok() {
            if let crate::sess::OutKind::Ok { last_is_expr: l, .. } = &o.kind {
                last_is_expr = *l;
            }
            for l in text.lines() {
                lines.push(l.to_string());
            }
        }
    }
    if lines.is_empty() {
        lines.push("print(\"mk-1\")".to_string());
        last_is_expr = false;
    }

    // a user module in <config dir>/numbat/modules, imported by the script: its prints and
    // definitions belong to the importing input, its failures are failures of that input
    let mut user_module = Value::Null;
    let mut user_module_src = String::new();
    if !no_prelude && rng.chance(0.2) {
        let k = rng.range(1, 99);
        let name = format!("user::mod{k}");
        let marker = format!("mk-{}", 9500 + k);
        user_module_src = format!(
            "# user module {k}\nprint(\"{marker}\")\nlet umv{k} = 3 m\nfn umf{k}(x: Scalar) -> Scalar = x + {}",
            rng.range(1, 9)
        );
        let positions: Vec<usize> = (0..=lines.len()).filter(|i| *i == 0 || !lines[*i - 1].starts_with('@')).collect();
        let at = *rng.pick(&positions);
        lines.insert(at, format!("use {name}"));
        if rng.chance(0.6) {
            let later: Vec<usize> = (at + 1..=lines.len()).filter(|i| !lines[*i - 1].starts_with('@')).collect();
            let at2 = *rng.pick(&later);
            lines.insert(at2, format!("assert_eq(umv{k} + umf{k}(0) m, {} m)", 3 + (user_module_src.chars().last().unwrap() as u8 - b'0') as i64));
        }
        w.importer.add_module(&name, &user_module_src);
        user_module = json!({"name": name, "path": format!("cfg/numbat/modules/user/mod{k}.nbt"), "marker": marker});
    }

    // big output: one printed line of 12-48 KiB (longer than any stdio buffer), built by repeated
    // string interpolation; it is a marker like any other (exactly once, in order, absent when
    // its input is rejected) but only shows what happens when a lot is written
    let mut big_output = Value::Null;
    if !no_prelude && rng.chance(0.15) {
        let k = rng.range(1, 99);
        let reps = rng.range(3, 12) as usize;
        let mut block: Vec<String> = vec![format!("let vbig{k}a = \"xxxxxxxxxxxxxxxx\"")];
        for (prev, cur) in [("a", "b"), ("b", "c"), ("c", "d"), ("d", "e")] {
            block.push(format!("let vbig{k}{cur} = \"{{vbig{k}{prev}}}{{vbig{k}{prev}}}{{vbig{k}{prev}}}{{vbig{k}{prev}}}\""));
        }
        let body: String = (0..reps).map(|_| format!("{{vbig{k}e}}")).collect();
        let line = format!("print(\"mkbig-{k}-{body}-end\")");
        block.push(line.clone());
        let expected = format!("mkbig-{k}-{}-end", "x".repeat(4096 * reps));
        let positions: Vec<usize> = (0..=lines.len()).filter(|i| *i == 0 || !lines[*i - 1].starts_with('@')).collect();
        let at = *rng.pick(&positions);
        for (i, l) in block.into_iter().enumerate() {
            lines.insert(at + i, l);
        }
        big_output = json!({"line": line, "expected": expected});
    }

    // many prints: 1 030 - 3 000 consecutive marker prints in ONE input (more printed lines than
    // any fixed-size queue of pending output holds); ordinary markers for the model
    if !no_prelude && rng.chance(0.04) {
        let n = rng.range(1030, 3000) as usize;
        let positions: Vec<usize> = (0..=lines.len()).filter(|i| *i == 0 || !lines[*i - 1].starts_with('@')).collect();
        let at = *rng.pick(&positions);
        for i in 0..n {
            lines.insert(at + i, format!("print(\"mk-{}\")", 100_000 + i));
        }
        res.bump("probe.many_prints_case");
    }

    // blank lines (an empty -e argument / an empty line in the file)
    if rng.chance(0.2) {
        let positions: Vec<usize> = (0..=lines.len()).filter(|i| *i == 0 || !lines[*i - 1].starts_with('@')).collect();
        let at = *rng.pick(&positions);
        lines.insert(at, String::new());
    }
    // fault
    let mut fault = Value::Null;
    let with_fault = rng.chance(0.55);
    let channel = *rng.pick(&["file", "file", "e", "e", "split"]);
    let mut file_lines: Vec<String> = vec![];
    let mut e_lines: Vec<String> = vec![];
    // a statement with a decorator spans two lines: never split inside it
    let split_points: Vec<usize> = (1..lines.len()).filter(|i| !lines[*i - 1].starts_with('@')).collect();
    match channel {
        "file" => file_lines = lines.clone(),
        "e" => e_lines = lines.clone(),
        _ => {
            if split_points.is_empty() {
                file_lines = lines.clone();
                e_lines = vec!["print(\"mk-7777\")".to_string()];
            } else {
                let at = *rng.pick(&split_points);
                file_lines = lines[..at].to_vec();
                e_lines = lines[at..].to_vec();
            }
        }
    }
    let mut second_parse_at: Option<usize> = None;
    if with_fault {
        let kinds = if no_prelude {
            vec![FaultKind::Parse, FaultKind::UnknownModule, FaultKind::RuntimeError]
        } else {
            vec![FaultKind::Parse, FaultKind::UnknownModule, FaultKind::NameClash, FaultKind::TypeError, FaultKind::RuntimeError]
        };
        let kind = rng.pick(&kinds).clone();
        // the fault may sit inside the imported user module instead of the script itself
        let break_module = !user_module.is_null() && rng.chance(0.5);
        let stmt = if break_module {
            String::new()
        } else if no_prelude {
            match kind {
                FaultKind::Parse => "1 +".to_string(),
                FaultKind::UnknownModule => "use nonexistent::module".to_string(),
                _ => "1 / 0".to_string(),
            }
        } else {
            g.fault_only(&kind)
        };
        // place it in one of the inputs at a statement boundary
        let target_e = match channel {
            "file" => false,
            "e" => true,
            _ => rng.chance(0.5),
        };
        let use_line = format!("use {}", user_module["name"].as_str().unwrap_or("-"));
        let target_e = if break_module { e_lines.iter().any(|l| *l == use_line) } else { target_e };
        let tl = if target_e { &mut e_lines } else { &mut file_lines };
        let idx;
        if break_module {
            idx = tl.iter().position(|l| *l == use_line).unwrap_or(0);
            let bad = *rng.pick(&["let = 3 +", "let ubad: Time = 1 m", "assert(1 == 2)", "use user::nonexistent", "1 / 0"]);
            user_module_src = if rng.chance(0.6) {
                format!("{user_module_src}\n{bad}")
            } else {
                format!("{bad}\n{user_module_src}")
            };
            w.importer.add_module(user_module["name"].as_str().unwrap_or("-"), &user_module_src);
        } else {
            let mut positions: Vec<usize> = (0..=tl.len()).filter(|i| *i == 0 || !tl[*i - 1].starts_with('@')).collect();
            if positions.is_empty() {
                positions.push(0);
            }
            let at = *rng.pick(&positions);
            let stmt_lines: Vec<String> = stmt.lines().map(|s| s.to_string()).collect();
            idx = at + stmt_lines.len() - 1;
            for (k, l) in stmt_lines.into_iter().enumerate() {
                tl.insert(at + k, l);
            }
        }
        if kind == FaultKind::Parse && !break_module && rng.chance(0.3) {
            // a second syntax error further down: several diagnostics for one input
            let later: Vec<usize> = (idx + 1..=tl.len()).filter(|i| !tl[*i - 1].starts_with('@')).collect();
            if !later.is_empty() {
                let at2 = *rng.pick(&later);
                tl.insert(at2, "let = 3".to_string());
                second_parse_at = Some(at2);
            }
        }
        // learn the stage from the library (and make sure the input really fails)
        let mut s = if no_prelude { Sess::new(w.importer.clone()) } else { base.clone() };
        let mut stage = "ok";
        if target_e && channel == "split" {
            let o1 = s.submit(&file_lines.join("\n"));
            if !o1.is_ok() {
                res.bump("gen.discarded");
                return None;
            }
        }
        let o = s.submit(&(if target_e { &e_lines } else { &file_lines }).join("\n"));
        if !o.is_ok() {
            stage = o.stage();
        }
        if stage == "ok" || stage == "panic" {
            res.bump("gen.discarded");
            return None;
        }
        fault = json!({"where": if target_e {"e"} else {"file"}, "index": idx, "stage": stage, "kind": if break_module { "broken-user-module" } else { kind.name() }});
        if let Some(at2) = second_parse_at
            && o.parse_errors >= 2
        {
            fault["second_parse_index"] = json!(at2);
            fault["library_parse_errors"] = json!(o.parse_errors);
        }
        last_is_expr = false;
    } else {
        // verify the whole script the way the binary will see it
        let mut s = if no_prelude { Sess::new(w.importer.clone()) } else { base.clone() };
        for part in [&file_lines, &e_lines] {
            if part.is_empty() {
                continue;
            }
            let o = s.submit(&part.join("\n"));
            if !o.is_ok() {
                res.bump("gen.discarded");
                return None;
            }
            if let crate::sess::OutKind::Ok { last_is_expr: l, value, .. } = &o.kind {
                last_is_expr = *l && value.is_some();
            }
        }
    }

    // multi-line -e arguments: group consecutive lines (a decorator stays with its statement)
    let mut e_groups: Vec<usize> = vec![];
    if !e_lines.is_empty() && rng.chance(0.35) {
        let mut i = 0;
        while i < e_lines.len() {
            let mut take = rng.range(1, 3) as usize;
            take = take.min(e_lines.len() - i);
            e_groups.push(take);
            i += take;
        }
    }
    // environment
    let mut flags: Vec<String> = vec![];
    if no_prelude {
        flags.push("--no-prelude".into());
    }
    if rng.chance(0.3) {
        flags.push("--no-init".into());
    }
    if rng.chance(0.15) {
        flags.push("--pretty-print".into());
        flags.push(rng.pick(&["always", "never"]).to_string());
    }
    let mut env_fault = "";
    let mut init: Option<String> = None;
    let mut config: Option<String> = if rng.chance(0.7) { Some(CONFIG_NEVER_FETCH.to_string()) } else { None };
    let mut modules_path = crate::sess::modules_dir();
    if !with_fault && rng.chance(0.25) {
        env_fault = *rng.pick(&["missing-file", "dir-as-file", "non-utf8-file", "corrupt-config", "failing-init", "good-init", "modules-path-nowhere"]);
        match env_fault {
            "missing-file" | "dir-as-file" | "non-utf8-file" => {
                if channel == "e" {
                    env_fault = "";
                }
            }
            "corrupt-config" => {
                config = Some(rng.pick(&["[exchange-rates\nfetching-policy = \"never\"", "no-such-key = 1\n", "pretty-print = 7\n", "\u{0}\u{1}garbage"]).to_string());
            }
            "failing-init" => {
                init = Some(rng.pick(&["print(\"mk-8001\")\n1 / 0\n", "let = 3\n", "print(\"mk-8002\")\nundefined_name_q\n"]).to_string());
                flags.retain(|f| f != "--no-init");
                if no_prelude {
                    env_fault = "";
                    init = None;
                }
            }
            "good-init" => {
                init = Some("print(\"mk-8003\")\nlet vinit = 3\n".to_string());
                flags.retain(|f| f != "--no-init");
                if no_prelude {
                    init = None;
                }
            }
            _ => {
                modules_path = "/nonexistent/modules".to_string();
            }
        }
    }
    Some(json!({
        "format": 1,
        "property": "C22",
        "channel": channel,
        "file_lines": file_lines,
        "e_lines": e_lines,
        "fault": fault,
        "env_fault": env_fault,
        "flags": flags,
        "init": init,
        "config": config,
        "modules_path": modules_path,
        "last_is_expr": last_is_expr,
        "check_equivalence": rng.chance(0.5),
        "file_first": rng.chance(0.5),
        "e_groups": e_groups,
        "big_output": big_output,
        "user_module": if user_module.is_null() { Value::Null } else {
            let mut um = user_module.clone();
            um["source"] = json!(user_module_src);
            um
        },
    }))
}

pub struct C22;

impl Prop for C22 {
    type Worker = SessWorker;
    fn id(&self) -> &'static str {
        "C22"
    }
    fn new_worker(&self) -> SessWorker {
        SessWorker::new()
    }
    fn runs(&self, tier: Tier) -> u64 {
        match tier {
            Tier::Quick => 1_500,
            Tier::Thorough => 40_000,
        }
    }
    fn run(&self, w: &mut SessWorker, seed: u64, _run: u64, _tier: Tier) -> (Value, ExecResult) {
        let mut rng = Rng::new(seed);
        let mut res = ExecResult::default();
        let mut trace = None;
        for _ in 0..5 {
            trace = gen_trace(w, &mut rng, &mut res);
            if trace.is_some() || res.harness_error.is_some() {
                break;
            }
        }
        let Some(trace) = trace else {
            if res.harness_error.is_none() {
                res.bump("gen.gave_up");
            }
            return (json!({"property": "C22", "skipped": true}), res);
        };
        let mut r2 = self.exec(w, &trace);
        for (k, v) in res.stats {
            *r2.stats.entry(k).or_insert(0) += v;
        }
        (trace, r2)
    }
    fn exec(&self, _w: &mut SessWorker, trace: &Value) -> ExecResult {
        let mut res = ExecResult::default();
        if trace["skipped"].as_bool().unwrap_or(false) {
            return res;
        }
        let obs = exec_trace(trace, &mut res);
        // fingerprint: the case and everything the process was observed to do
        let mut fp = Fnv::default();
        fp.write_str(&trace.to_string());
        fp.write_u64(obs);
        res.states.insert(obs);
        res.fingerprint = fp.0;
        let n = trace["file_lines"].as_array().map(|a| a.len()).unwrap_or(0)
            + trace["e_lines"].as_array().map(|a| a.len()).unwrap_or(0);
        res.nontrivial = n >= 2;
        let f = &trace["fault"];
        if !f.is_null() {
            res.bump(&format!("fault.{}", f["kind"].as_str().unwrap_or("?")));
            res.bump(&format!("stage.{}", f["stage"].as_str().unwrap_or("?")));
            let idx = f["index"].as_u64().unwrap_or(0) as usize;
            let len = trace[if f["where"] == "e" { "e_lines" } else { "file_lines" }].as_array().map(|a| a.len()).unwrap_or(1);
            let pos = if idx == 0 { "first" } else if idx + 1 >= len { "last" } else { "middle" };
            res.cell(&format!("{}|{}|{}|{}", f["stage"], pos, trace["channel"], f["where"]));
        } else {
            res.bump("runs.all-succeeding");
            res.cell(&format!("ok|{}|{}", trace["channel"], trace["env_fault"]));
        }
        let ef = trace["env_fault"].as_str().unwrap_or("");
        if !ef.is_empty() {
            res.bump(&format!("fault.cli-io.{ef}"));
        }
        if trace["e_groups"].as_array().map(|a| a.iter().any(|x| x.as_u64().unwrap_or(1) > 1)).unwrap_or(false) {
            res.bump("probe.multi_line_e_argument");
        }
        if trace["file_lines"].as_array().into_iter().flatten().chain(trace["e_lines"].as_array().into_iter().flatten()).any(|l| l.as_str() == Some("")) {
            res.bump("probe.blank_line_or_empty_e_argument");
        }
        for fl in trace["flags"].as_array().into_iter().flatten() {
            if let Some(s) = fl.as_str()
                && s.starts_with("--")
            {
                res.bump(&format!("flag.{s}"));
            }
        }
        res
    }
    fn shrink(&self, trace: &Value) -> Vec<Value> {
        let mut out = vec![];
        for key in ["file_lines", "e_lines"] {
            if let Some(a) = trace[key].as_array() {
                for i in (0..a.len()).rev() {
                    // never remove the faulty line or the second half of a decorated statement
                    let f = &trace["fault"];
                    let is_fault_input = (f["where"] == "e") == (key == "e_lines");
                    if !f.is_null() && is_fault_input && f["index"].as_u64() == Some(i as u64) {
                        continue;
                    }
                    if a[i].as_str().map(|s| s.starts_with('@')).unwrap_or(false) {
                        continue;
                    }
                    let mut a2 = a.clone();
                    a2.remove(i);
                    let mut removed = 1;
                    let mut j = i;
                    while j > 0 && a2[j - 1].as_str().map(|s| s.starts_with('@')).unwrap_or(false) {
                        a2.remove(j - 1);
                        j -= 1;
                        removed += 1;
                    }
                    let mut t = trace.clone();
                    t[key] = Value::Array(a2);
                    if !f.is_null() && is_fault_input {
                        let idx = f["index"].as_u64().unwrap_or(0) as usize;
                        if i < idx {
                            t["fault"]["index"] = json!(idx - removed);
                        }
                    }
                    // last_is_expr can no longer be trusted; indices of a second syntax error neither
                    t["last_is_expr"] = json!(false);
                    if let Some(o) = t["fault"].as_object_mut() {
                        o.remove("second_parse_index");
                    }
                    out.push(t);
                }
            }
        }
        if let Some(fl) = trace["flags"].as_array()
            && !fl.is_empty()
        {
            let mut t = trace.clone();
            let keep: Vec<Value> = fl.iter().filter(|f| f.as_str() == Some("--no-prelude")).cloned().collect();
            if keep.len() != fl.len() {
                t["flags"] = Value::Array(keep);
                out.push(t);
            }
        }
        out
    }
    fn rule(&self) -> String {
        "Each run builds a script of 1-12 lines with the shared workload generator (every line verified to succeed \
         through the library first; unique marker prints `print(\"mk-N\")`), optionally inserts ONE faulty statement \
         (parse, unknown module, name clash, type error, run-time error - stage confirmed through the library) at a \
         seeded statement position, and delivers it to the real binary as a file, as -e arguments (one per line) or \
         split file + -e, with seeded flags (--no-prelude, --no-init, --pretty-print) and environment variations \
         (missing / directory / non-UTF-8 source file, corrupt config.toml, failing or good init.nbt, module path \
         pointing nowhere, config with fetching-policy never or --no-config; in 20 % of the cases the script imports \
         a user module from <config dir>/numbat/modules, healthy or broken in one of five ways). Checked: exit status 0 iff no fault; \
         success => empty stderr, every marker exactly once, own line, in order, result line after the last print \
         if the script ends in an expression; failure => exit 1, diagnostic on stderr, none on stdout, no marker \
         after the faulty line (none of the same input for static faults), earlier successful input still printed, \
         later input not run; in half of the runs the same lines are also delivered through the other channel and \
         must give identical exit status and stdout and the same diagnostics up to source labels. Non-trivial = at \
         least 2 lines. Distinct = distinct trace."
            .to_string()
    }
    fn expected_probes(&self) -> Vec<&'static str> {
        vec![
            "channel.file",
            "channel.e",
            "channel.split",
            "stage.parse",
            "stage.resolve",
            "stage.name",
            "stage.type",
            "stage.runtime",
            "fault.cli-io.missing-file",
            "fault.cli-io.dir-as-file",
            "fault.cli-io.non-utf8-file",
            "fault.cli-io.corrupt-config",
            "fault.cli-io.failing-init",
            "fault.cli-io.good-init",
            "fault.cli-io.modules-path-nowhere",
            "checks.channel_equivalence",
            "checks.second_diagnostic_reaches_stderr",
            "probe.multi_line_e_argument",
            "probe.blank_line_or_empty_e_argument",
            "flag.--no-prelude",
            "flag.--pretty-print",
            "runs.all-succeeding",
        ]
    }
    fn assumptions(&self) -> Vec<String> {
        vec![
            "which line is faulty and at which stage is established through the numbat library before the binary is run; what is checked is the CLI layer's mapping to exit status, stdout and stderr".into(),
            "output-side faults (closed or full stdout) are not asserted; permission-denied files are not used (sandbox runs as root)".into(),
            "exact wording of diagnostics and formatting of values are not asserted (unique marker strings instead)".into(),
            "currency identifiers are never generated, so no network access is attempted; most runs use a config with fetching-policy never".into(),
        ]
    }
    fn extra_evidence(&self, _tier: Tier) -> Value {
        json!({
            "components": {
                "real": ["the numbat binary built from /repo's working tree (debug profile, no hooks) into /verif/target-cli", "real files, arguments, environment, pipes"],
                "stub": ["nothing inside the process; the harness owns its environment (HOME, XDG dirs, NUMBAT_MODULES_PATH, TZ, NO_COLOR, cwd, closed stdin)"]
            },
            "simulated_time": "none: file/-e mode spawns no thread and reads no clock; one process invocation per step",
        })
    }
}
